//! Verification model for kanal (overlay of `/repo/src/verif.rs`, same hook API).
//!
//! Under `cfg(kani)` (both `cargo kani` and `cargo kani playback`) this module
//! provides:
//!  * the environment model: a `std` shim with a virtual clock, logical
//!    threads with park/unpark tokens, no-op yields and sleeps, a symbolic
//!    `available_parallelism`;
//!  * the sequentialising scheduler behind the `at(site)` / `spin_cut(site)`
//!    hooks: an injection plan of (logical thread, site) -> peer action;
//!  * ghost ledgers, instrumented wakers, payload classes and the proof
//!    harnesses (sub-modules).
//! Without `cfg(kani)` it degrades to the pass-through API of `/repo`.
#![allow(missing_docs)]
#![allow(static_mut_refs)]
#![allow(dead_code)]
#![allow(clippy::all)]

pub const SITE_WAIT_ENTRY: u16 = 1;
pub const SITE_WAIT_SPIN: u16 = 2;
pub const SITE_WAIT_PRECAS: u16 = 3;
pub const SITE_PARK: u16 = 4;
pub const SITE_WT_ENTRY: u16 = 5;
pub const SITE_WT_SPIN: u16 = 6;
pub const SITE_WT_LOOP: u16 = 7;
pub const SITE_WT_EXIT: u16 = 8;
pub const SITE_TIMED_EXPIRED: u16 = 9;
pub const SITE_TIMED_PRECANCEL: u16 = 10;
pub const SITE_ABW_ENTRY: u16 = 11;
pub const SITE_ABW_SPIN: u16 = 12;
pub const SITE_ABW_SLEEP: u16 = 13;
pub const SITE_POLL_PENDING: u16 = 14;
pub const SITE_POLL_EXISTS: u16 = 15;
pub const SITE_NOW: u16 = 16;
pub const SITE_BACKOFF: u16 = 17;
pub const SITE_WAKE_ENTRY: u16 = 18;
pub const SITE_REGISTER_WAKER: u16 = 19;

#[cfg(not(kani))]
pub mod std {
    pub use ::std::*;
    pub mod thread {
        pub use ::std::thread::*;
    }
    pub mod time {
        pub use ::std::time::*;
    }
    pub mod hint {
        pub use ::std::hint::*;
    }
}
#[cfg(not(kani))]
#[inline(always)]
pub fn at(_site: u16) {}
#[cfg(not(kani))]
#[inline(always)]
pub fn spin_cut(_site: u16) -> bool {
    false
}

#[cfg(kani)]
pub mod model;
#[cfg(kani)]
pub use model::{at, spin_cut, std};
#[cfg(kani)]
pub mod ctx;
#[cfg(kani)]
pub mod payload;
#[cfg(kani)]
pub mod waker;

#[cfg(kani)]
pub mod fam;
#[cfg(kani)]
pub mod spec;
#[cfg(kani)]
pub mod h_gen;
