//! Payload classes (one Kani harness per concrete instantiation).
pub const NTAGS: usize = 12;
/// drops observed per tag (droppable classes only)
pub static mut DROPS: [u8; NTAGS] = [0; NTAGS];

pub fn drops(tag: u8) -> u8 {
    unsafe { DROPS[tag as usize] }
}

pub trait Payload: Sized {
    /// has drop glue that bumps DROPS[tag]
    const DROPPY: bool;
    /// carries a recoverable tag
    const TAGGED: bool;
    /// a value with this tag, every other bit symbolic
    fn make(tag: u8) -> Self;
    fn tag(&self) -> u8;
    /// canonical image of all value bits (padding excluded)
    fn bits(&self) -> [u64; 3];
}

impl Payload for () {
    const DROPPY: bool = false;
    const TAGGED: bool = false;
    fn make(_t: u8) -> Self {}
    fn tag(&self) -> u8 {
        0
    }
    fn bits(&self) -> [u64; 3] {
        [0; 3]
    }
}

/// over-aligned zero-sized type
#[repr(align(64))]
pub struct ZA;
impl Payload for ZA {
    const DROPPY: bool = false;
    const TAGGED: bool = false;
    fn make(_t: u8) -> Self {
        ZA
    }
    fn tag(&self) -> u8 {
        0
    }
    fn bits(&self) -> [u64; 3] {
        [(self as *const ZA as usize % 64) as u64, 0, 0]
    }
}

impl Payload for u8 {
    const DROPPY: bool = false;
    const TAGGED: bool = true;
    fn make(t: u8) -> Self {
        t
    }
    fn tag(&self) -> u8 {
        *self
    }
    fn bits(&self) -> [u64; 3] {
        [*self as u64, 0, 0]
    }
}

impl Payload for u32 {
    const DROPPY: bool = false;
    const TAGGED: bool = true;
    fn make(t: u8) -> Self {
        let hi: u32 = kani::any();
        (hi << 8) | t as u32
    }
    fn tag(&self) -> u8 {
        *self as u8
    }
    fn bits(&self) -> [u64; 3] {
        [*self as u64, 0, 0]
    }
}

impl Payload for usize {
    const DROPPY: bool = false;
    const TAGGED: bool = true;
    fn make(t: u8) -> Self {
        let hi: usize = kani::any();
        (hi << 8) | t as usize
    }
    fn tag(&self) -> u8 {
        *self as u8
    }
    fn bits(&self) -> [u64; 3] {
        [*self as u64, 0, 0]
    }
}

/// larger than a pointer, no padding
pub type Big = [u64; 2];
impl Payload for Big {
    const DROPPY: bool = false;
    const TAGGED: bool = true;
    fn make(t: u8) -> Self {
        let a: u64 = kani::any();
        [(a << 8) | t as u64, kani::any()]
    }
    fn tag(&self) -> u8 {
        self[0] as u8
    }
    fn bits(&self) -> [u64; 3] {
        [self[0], self[1], 0]
    }
}

/// pointer-sized with interior padding
pub struct Pad {
    pub a: bool,
    pub b: u8,
    pub c: u32,
}
impl Payload for Pad {
    const DROPPY: bool = false;
    const TAGGED: bool = true;
    fn make(t: u8) -> Self {
        Pad {
            a: kani::any(),
            b: t,
            c: kani::any(),
        }
    }
    fn tag(&self) -> u8 {
        self.b
    }
    fn bits(&self) -> [u64; 3] {
        [self.a as u64, self.b as u64, self.c as u64]
    }
}

/// larger than a pointer with padding
pub struct PadL {
    pub a: u8,
    pub b: u64,
    pub c: u16,
}
impl Payload for PadL {
    const DROPPY: bool = false;
    const TAGGED: bool = true;
    fn make(t: u8) -> Self {
        PadL {
            a: t,
            b: kani::any(),
            c: kani::any(),
        }
    }
    fn tag(&self) -> u8 {
        self.a
    }
    fn bits(&self) -> [u64; 3] {
        [self.a as u64, self.b, self.c as u64]
    }
}

fn count_drop(tag: u8) {
    unsafe {
        DROPS[tag as usize] += 1;
    }
}

/// droppable zero-sized type (a permit / token): every construction must be matched by exactly one drop
pub static mut ZD_MADE: u8 = 0;
pub struct ZD;
impl Drop for ZD {
    fn drop(&mut self) {
        count_drop(0)
    }
}
impl Payload for ZD {
    const DROPPY: bool = true;
    const TAGGED: bool = false;
    fn make(_t: u8) -> Self {
        unsafe {
            ZD_MADE += 1;
        }
        ZD
    }
    fn tag(&self) -> u8 {
        0
    }
    fn bits(&self) -> [u64; 3] {
        [0; 3]
    }
}

/// droppable, smaller than a pointer
pub struct TagS(pub u8);
impl Drop for TagS {
    fn drop(&mut self) {
        count_drop(self.0)
    }
}
impl Payload for TagS {
    const DROPPY: bool = true;
    const TAGGED: bool = true;
    fn make(t: u8) -> Self {
        TagS(t)
    }
    fn tag(&self) -> u8 {
        self.0
    }
    fn bits(&self) -> [u64; 3] {
        [self.0 as u64, 0, 0]
    }
}

/// droppable, exactly pointer-sized
pub struct TagP(pub u8, pub [u8; 7]);
impl Drop for TagP {
    fn drop(&mut self) {
        count_drop(self.0)
    }
}
impl Payload for TagP {
    const DROPPY: bool = true;
    const TAGGED: bool = true;
    fn make(t: u8) -> Self {
        TagP(t, kani::any())
    }
    fn tag(&self) -> u8 {
        self.0
    }
    fn bits(&self) -> [u64; 3] {
        let r = &self.1;
        [
            self.0 as u64,
            u32::from_le_bytes([r[0], r[1], r[2], r[3]]) as u64,
            u32::from_le_bytes([r[4], r[5], r[6], 0]) as u64,
        ]
    }
}

/// droppable, larger than a pointer
pub struct TagL(pub u8, pub u64, pub u64);
impl Drop for TagL {
    fn drop(&mut self) {
        count_drop(self.0)
    }
}
impl Payload for TagL {
    const DROPPY: bool = true;
    const TAGGED: bool = true;
    fn make(t: u8) -> Self {
        TagL(t, kani::any(), kani::any())
    }
    fn tag(&self) -> u8 {
        self.0
    }
    fn bits(&self) -> [u64; 3] {
        [self.0 as u64, self.1, self.2]
    }
}
