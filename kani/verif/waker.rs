//! Instrumented task wakers: one static vtable, the data pointer is the waker id.
use core::task::{RawWaker, RawWakerVTable, Waker};

pub const NWAKERS: usize = 4;
pub static mut WAKES: [u8; NWAKERS] = [0; NWAKERS];
pub static mut CLONES: [u8; NWAKERS] = [0; NWAKERS];
/// live Waker objects per id (created + cloned - dropped - consumed by wake)
pub static mut LIVE: [i8; NWAKERS] = [0; NWAKERS];

fn id_of(p: *const ()) -> usize {
    p as usize - 1
}

unsafe fn w_clone(p: *const ()) -> RawWaker {
    let id = id_of(p);
    assert!(LIVE[id] > 0, "waker cloned after its last reference was dropped");
    CLONES[id] += 1;
    LIVE[id] += 1;
    RawWaker::new(p, &VTABLE)
}
unsafe fn w_wake(p: *const ()) {
    let id = id_of(p);
    assert!(LIVE[id] > 0, "dead waker woken");
    WAKES[id] += 1;
    LIVE[id] -= 1;
}
unsafe fn w_wake_by_ref(p: *const ()) {
    let id = id_of(p);
    assert!(LIVE[id] > 0, "dead waker woken");
    WAKES[id] += 1;
}
unsafe fn w_drop(p: *const ()) {
    let id = id_of(p);
    assert!(LIVE[id] > 0, "waker dropped twice");
    LIVE[id] -= 1;
}

pub static VTABLE: RawWakerVTable = RawWakerVTable::new(w_clone, w_wake, w_wake_by_ref, w_drop);

/// a fresh Waker object for waker id `id` (ids compare equal under will_wake)
pub fn waker(id: usize) -> Waker {
    unsafe {
        LIVE[id] += 1;
        Waker::from_raw(RawWaker::new((id + 1) as *const (), &VTABLE))
    }
}

pub fn wakes(id: usize) -> u8 {
    unsafe { WAKES[id] }
}

// ---- direct (pointer-free) versions used as kani::stub replacements of the Waker methods ----
// Under CBMC a call through the RawWakerVTable is an indirect call that may target every
// address-taken function of type fn(*const ()); the stubs do the same bookkeeping directly.
// Natively (playback) the vtable functions above run instead.

pub fn stub_wake(w: Waker) {
    unsafe { w_wake(w.data()) };
    core::mem::forget(w);
}
pub fn stub_wake_by_ref(w: &Waker) {
    unsafe { w_wake_by_ref(w.data()) };
}
pub fn stub_clone(w: &Waker) -> Waker {
    unsafe { Waker::from_raw(w_clone(w.data())) }
}
pub fn stub_drop(w: &mut Waker) {
    unsafe { w_drop(w.data()) };
}
