//! Environment model + sequentialising scheduler (cfg(kani) only).
//!
//! Everything here is plain Rust over `static mut` ghost state, so the same
//! code runs symbolically under CBMC and concretely under
//! `cargo kani playback` (where `kani::any()` replays recorded bytes).

pub const MAX_THREADS: usize = 4;
pub const MAX_SLOTS: usize = 4;
/// a time later than any deadline a harness can build
pub const FAR: u64 = 1 << 40;

#[derive(Clone, Copy)]
pub struct Slot {
    pub armed: bool,
    pub fired: bool,
    pub thread: u8,
    pub site: u16,
    /// fire at the nth arrival (0-based) of `thread` at `site`
    pub nth: u8,
    /// arrivals so far; kept concrete by construction (see DESIGN 3.1.4)
    pub seen: u8,
}
pub const NO_SLOT: Slot = Slot {
    armed: false,
    fired: false,
    thread: 0,
    site: 0,
    nth: 0,
    seen: 0,
};

/// the injection plan: slot i fires when logical thread `thread` reaches `site`
pub static mut SLOTS: [Slot; MAX_SLOTS] = [NO_SLOT; MAX_SLOTS];
/// logical thread currently executing
pub static mut CUR: u8 = 0;
/// runs slot i's peer action (monomorphised by the harness)
pub static mut HOOK: Option<fn(usize)> = None;
/// tells whether the channel lock is held right now (a site under the lock is skipped)
pub static mut LOCK_PROBE: Option<fn() -> bool> = None;
pub static mut SKIPPED_LOCKED: u8 = 0;
pub static mut FIRED_COUNT: u8 = 0;

pub static mut TOKEN: [bool; MAX_THREADS] = [false; MAX_THREADS];
pub static mut UNPARKS: [u8; MAX_THREADS] = [0; MAX_THREADS];
pub static mut PARKS: [u8; MAX_THREADS] = [0; MAX_THREADS];
/// bit i set: the i-th park() call of the run returns spuriously (concrete per query)
pub static mut SPURIOUS_PLAN: u8 = 0;
pub static mut PARK_CALLS: u8 = 0;
pub static mut SPURIOUS_USED: u8 = 0;

/// virtual clock (seconds, nanoseconds)
pub static mut NOW_S: u64 = 1000;
pub static mut NOW_N: u32 = 0;
pub static mut READS_LEFT: u8 = 4;
pub static mut CLOCK_READS: u8 = 0;
/// true: every reading advances the clock by an arbitrary amount (symbolic time);
/// false: reading i advances it by CLOCK_SCRIPT[i] (a concrete time script, used when a
/// peer acts inside the timed wait loop, where symbolic time makes the formula explode)
pub static mut CLOCK_SYMBOLIC: bool = true;
pub static mut CLOCK_SCRIPT: [u8; 6] = [0; 6];
/// deterministic time: readings never advance the clock
pub static mut CLOCK_FROZEN: bool = false;

/// value reported by the `available_parallelism` shim
pub static mut PAR: usize = 2;

/// a waiter that can never be resumed: always a verdict-relevant event
pub static mut STUCK: bool = false;
pub static mut STUCK_IS_BUG: bool = true;

#[inline(never)]
pub fn stuck(_why: &'static str) -> ! {
    unsafe {
        STUCK = true;
        if STUCK_IS_BUG {
            assert!(false, "STUCK: a blocked/pending operation can never be resumed");
        }
    }
    kani::assume(false);
    // natively (playback) this panics; symbolically the path ends at the assume.
    panic!("stuck")
}

/// Is the channel lock held right now?  Under verification every harness replaces this
/// function (kani::stub) by a direct call of its monomorphic probe: indirect calls through
/// `fn` pointers make CBMC consider every address-taken function of a compatible signature.
/// The pointer version below is what `cargo kani playback` (no stubs) executes natively.
pub fn lock_probe() -> bool {
    unsafe {
        match LOCK_PROBE {
            Some(p) => p(),
            None => false,
        }
    }
}

/// run slot i's peer action; replaced per harness like `lock_probe`
pub fn dispatch(i: usize) {
    unsafe {
        if let Some(h) = HOOK {
            h(i);
        }
    }
}

fn lock_held() -> bool {
    lock_probe()
}

pub fn arm(i: usize, thread: u8, site: u16) {
    arm_nth(i, thread, site, 0)
}

pub fn arm_nth(i: usize, thread: u8, site: u16, nth: u8) {
    unsafe {
        SLOTS[i] = Slot {
            armed: true,
            fired: false,
            thread,
            site,
            nth,
            seen: 0,
        };
    }
}

/// returns true if some armed slot has not fired (used by harness epilogues)
pub fn unfired() -> bool {
    unsafe {
        let mut i = 0;
        while i < MAX_SLOTS {
            if SLOTS[i].armed && !SLOTS[i].fired {
                return true;
            }
            i += 1;
        }
        false
    }
}

pub fn fired(i: usize) -> bool {
    unsafe { SLOTS[i].fired }
}

fn run_site(site: u16) -> bool {
    let mut any = false;
    unsafe {
        let me = CUR;
        let mut i = 0;
        while i < MAX_SLOTS {
            let s = SLOTS[i];
            if s.armed && s.thread == me && s.site == site {
                // the decision depends only on the arrival count, which stays a
                // constant inside every unrolled loop copy (no path-dependent flag)
                SLOTS[i].seen = s.seen + 1;
                if s.seen == s.nth {
                    if lock_held() {
                        SKIPPED_LOCKED += 1;
                    } else {
                        SLOTS[i].fired = true;
                        FIRED_COUNT += 1;
                        any = true;
                        dispatch(i);
                        CUR = me;
                    }
                }
            }
            i += 1;
        }
    }
    any
}

/// scheduling point
pub fn at(site: u16) {
    let any = run_site(site);
    if site == super::SITE_ABW_SLEEP && !any && spin_cut(site) {
        // sleeping for a peer that will never come: nothing is scheduled at this site any more
        // and nobody else can run
        stuck("async_blocking_wait");
    }
}

/// skip the stutter iterations of a bounded spin loop
pub fn spin_cut(site: u16) -> bool {
    unsafe {
        let me = CUR;
        let mut i = 0;
        while i < MAX_SLOTS {
            let s = SLOTS[i];
            if s.armed && s.seen <= s.nth && s.thread == me && s.site == site {
                return false;
            }
            i += 1;
        }
    }
    true
}

/// run `f` as logical thread `t`
pub fn as_thread<R>(t: u8, f: impl FnOnce() -> R) -> R {
    unsafe {
        let saved = CUR;
        CUR = t;
        let r = f();
        CUR = saved;
        r
    }
}

pub fn stub_lock_no_inline(_m: &crate::mutex::RawMutexLock) {
    assert!(
        false,
        "contended channel lock in a sequentialised execution (self-deadlock)"
    );
    kani::assume(false);
}

pub fn stub_grow<T, A: core::alloc::Allocator>(_v: &mut ::std::collections::VecDeque<T, A>) {
    // A VecDeque of the channel (buffer or waiting list) never has to grow inside the bounds of engine K:
    // bounded buffers hold at most `capacity` values, unbounded ones start with 32 places, waiting lists
    // with 4 / 8.  Reaching this point therefore means the buffer is being filled beyond its capacity
    // (or a harness left its bound) - it must not be silently cut off.
    assert!(false, "C08: a channel queue had to grow beyond its initial capacity (buffer over capacity)");
    kani::assume(false);
}

/// Shadow of `std` seen by signal.rs / lib.rs / backoff.rs.
pub mod std {
    pub use ::std::*;

    pub mod thread {
        use super::super::*;
        use core::num::NonZeroUsize;
        use core::time::Duration;

        #[derive(Clone, Debug)]
        pub struct Thread {
            id: u8,
        }

        impl Thread {
            pub fn unpark(&self) {
                unsafe {
                    TOKEN[self.id as usize] = true;
                    UNPARKS[self.id as usize] += 1;
                }
            }
        }

        pub fn current() -> Thread {
            unsafe { Thread { id: CUR } }
        }

        pub fn park() {
            unsafe {
                let me = CUR as usize;
                PARKS[me] += 1;
                let call = PARK_CALLS;
                PARK_CALLS += 1;
                if call < 8 && (SPURIOUS_PLAN >> call) & 1 == 1 {
                    // spurious wake-up before anybody acted
                    SPURIOUS_USED += 1;
                    return;
                }
                at(crate::verif::SITE_PARK);
                if TOKEN[me] {
                    TOKEN[me] = false;
                    return;
                }
                stuck("parked without token");
            }
        }

        pub fn yield_now() {}

        pub fn sleep(_d: Duration) {}

        pub fn available_parallelism() -> Result<NonZeroUsize, ()> {
            unsafe { Ok(NonZeroUsize::new(PAR).unwrap()) }
        }
    }

    pub mod hint {
        pub fn spin_loop() {}
    }

    pub mod time {
        use super::super::*;
        pub use core::time::Duration;

        #[derive(Clone, Copy, PartialEq, Eq, PartialOrd, Ord, Debug)]
        pub struct Instant {
            s: u64,
            n: u32,
        }

        impl Instant {
            pub fn now() -> Instant {
                at(crate::verif::SITE_NOW);
                unsafe {
                    let idx = CLOCK_READS as usize;
                    CLOCK_READS += 1;
                    if CLOCK_FROZEN {
                    } else if !CLOCK_SYMBOLIC {
                        if idx < 6 {
                            NOW_S += CLOCK_SCRIPT[idx] as u64;
                        } else if NOW_S < FAR {
                            NOW_S = FAR;
                        }
                    } else {
                        if READS_LEFT == 0 {
                            if NOW_S < FAR {
                                NOW_S = FAR;
                            }
                        } else {
                            READS_LEFT -= 1;
                            let adv: u8 = kani::any();
                            NOW_S += adv as u64;
                        }
                    }
                    Instant { s: NOW_S, n: NOW_N }
                }
            }

            pub fn checked_add(&self, d: Duration) -> Option<Instant> {
                let mut s = match self.s.checked_add(d.as_secs()) {
                    Some(s) => s,
                    None => return None,
                };
                let mut n = self.n + d.subsec_nanos();
                if n >= 1_000_000_000 {
                    n -= 1_000_000_000;
                    s = match s.checked_add(1) {
                        Some(s) => s,
                        None => return None,
                    };
                }
                Some(Instant { s, n })
            }

            pub fn secs(&self) -> u64 {
                self.s
            }
        }

        /// harness-side view of the clock (does not advance it)
        pub fn peek() -> Instant {
            unsafe { Instant { s: NOW_S, n: NOW_N } }
        }
    }
}
