//! Reference model ("ideal channel"): a queue plus a waiting list, every
//! operation one atomic step.  Single-threaded view: the only waiters are
//! pending futures (a sync call that would block is never issued).
//! Tags stand for values; 0 = none.
use super::ctx::*;

pub const BUF_MAX: usize = 4;
pub const WQ_MAX: usize = 5;

// future life-cycle in the model
pub const F_NONE: u8 = 0; // not created
pub const F_NEW: u8 = 1; // created, never polled
pub const F_WAIT: u8 = 2; // registered in the waiting list
pub const F_COMPLETE: u8 = 3; // completed by a peer, result not yet observed
pub const F_DONE: u8 = 4; // result observed

#[derive(Clone, Copy)]
pub struct FutS {
    pub st: u8,
    /// tag carried (send future) or delivered (receive future)
    pub tag: u8,
    /// pending result code once completed by a peer
    pub res: u8,
    /// waker id the future was last polled with
    pub waker: u8,
}
pub const FUT0: FutS = FutS {
    st: F_NONE,
    tag: 0,
    res: 0,
    waker: 0,
};

#[derive(Clone, Copy)]
pub struct WEntry {
    pub is_send: bool,
    /// index of the future (send: sf[i], receive: rf[i]; 3 = the stream's inner future)
    pub fut: u8,
}

#[derive(Clone, Copy)]
pub struct Spec {
    pub cap: usize,
    pub buf: [u8; BUF_MAX],
    pub blen: usize,
    pub wq: [WEntry; WQ_MAX],
    pub wlen: usize,
    pub sc: u32,
    pub rc: u32,
    pub sf: [FutS; 3],
    pub rf: [FutS; 4],
    /// tags destroyed by the channel itself (close)
    pub destroyed: [bool; 12],
    /// wakes the model expects per waker id
    pub wakes: [u8; 4],
    pub stream_ended: bool,
    /// tags in the order receive operations obtain them
    pub order: [u8; 12],
    pub order_len: usize,
}

impl Spec {
    pub fn new(cap: Option<usize>) -> Spec {
        Spec {
            cap: match cap {
                Some(n) => n,
                None => usize::MAX,
            },
            buf: [0; BUF_MAX],
            blen: 0,
            wq: [WEntry {
                is_send: false,
                fut: 0,
            }; WQ_MAX],
            wlen: 0,
            sc: 1,
            rc: 1,
            sf: [FUT0; 3],
            rf: [FUT0; 4],
            destroyed: [false; 12],
            wakes: [0; 4],
            stream_ended: false,
            order: [0; 12],
            order_len: 0,
        }
    }

    fn note(&mut self, t: u8) {
        if self.order_len < 12 {
            self.order[self.order_len] = t;
            self.order_len += 1;
        }
    }

    pub fn send_would_wait(&self) -> bool {
        self.rc > 0 && self.receivers_waiting() == 0 && self.blen >= self.cap
    }
    pub fn recv_would_wait(&self) -> bool {
        self.rc > 0 && self.blen == 0 && self.senders_waiting() == 0 && self.sc > 0
    }

    fn push_buf(&mut self, t: u8) {
        self.buf[self.blen] = t;
        self.blen += 1;
    }
    fn pop_buf(&mut self) -> u8 {
        let t = self.buf[0];
        let mut i = 1;
        while i < BUF_MAX {
            self.buf[i - 1] = self.buf[i];
            i += 1;
        }
        self.buf[BUF_MAX - 1] = 0;
        self.blen -= 1;
        t
    }
    fn pop_wq(&mut self) -> WEntry {
        let e = self.wq[0];
        let mut i = 1;
        while i < WQ_MAX {
            self.wq[i - 1] = self.wq[i];
            i += 1;
        }
        self.wlen -= 1;
        e
    }
    fn push_wq(&mut self, e: WEntry) {
        self.wq[self.wlen] = e;
        self.wlen += 1;
    }
    fn remove_wq(&mut self, is_send: bool, fut: u8) {
        let mut i = 0;
        let mut found = WQ_MAX;
        while i < WQ_MAX {
            if i < self.wlen && self.wq[i].is_send == is_send && self.wq[i].fut == fut && found == WQ_MAX {
                found = i;
            }
            i += 1;
        }
        if found < WQ_MAX {
            let mut i = found + 1;
            while i < WQ_MAX {
                self.wq[i - 1] = self.wq[i];
                i += 1;
            }
            self.wlen -= 1;
        }
    }
    pub fn senders_waiting(&self) -> usize {
        if self.wlen > 0 && self.wq[0].is_send {
            self.wlen
        } else {
            0
        }
    }
    pub fn receivers_waiting(&self) -> usize {
        if self.wlen > 0 && !self.wq[0].is_send {
            self.wlen
        } else {
            0
        }
    }
    pub fn closed(&self) -> bool {
        self.sc == 0 && self.rc == 0
    }

    fn wake(&mut self, w: u8) {
        self.wakes[w as usize] += 1;
    }

    /// the oldest waiting sender's value is taken: its future completes with success
    fn take_from_sender(&mut self) -> u8 {
        let e = self.pop_wq();
        let f = &mut self.sf[e.fut as usize];
        f.st = F_COMPLETE;
        f.res = R_OK;
        let (t, w) = (f.tag, f.waker);
        self.wake(w);
        t
    }

    /// a value is handed to the oldest waiting receiver
    fn give_to_receiver(&mut self, t: u8) {
        let e = self.pop_wq();
        let f = &mut self.rf[e.fut as usize];
        f.st = F_COMPLETE;
        f.res = R_OK;
        f.tag = t;
        let w = f.waker;
        self.wake(w);
    }

    fn terminate_all(&mut self) {
        while self.wlen > 0 {
            let e = self.pop_wq();
            let w;
            if e.is_send {
                let f = &mut self.sf[e.fut as usize];
                f.st = F_COMPLETE;
                f.res = R_CLOSED;
                w = f.waker;
            } else {
                let f = &mut self.rf[e.fut as usize];
                f.st = F_COMPLETE;
                f.res = R_CLOSED;
                w = f.waker;
            }
            self.wake(w);
        }
    }

    fn send_err(&self) -> u8 {
        if self.sc == 0 {
            R_CLOSED
        } else {
            R_RECVCLOSED
        }
    }

    /// common admission logic of every send variant; returns R_OK, an error, or R_FALSE = would have to wait
    pub fn admit(&mut self, t: u8) -> u8 {
        if self.rc == 0 {
            return self.send_err();
        }
        if self.receivers_waiting() > 0 {
            self.give_to_receiver(t);
            R_OK
        } else if self.blen < self.cap {
            self.push_buf(t);
            R_OK
        } else {
            R_FALSE
        }
    }

    /// common logic of every receive variant: (code, tag); R_FALSE = would have to wait
    pub fn obtain(&mut self) -> (u8, u8) {
        if self.rc == 0 {
            return (R_CLOSED, 0);
        }
        if self.blen > 0 {
            let t = self.pop_buf();
            if self.senders_waiting() > 0 {
                let t2 = self.take_from_sender();
                self.push_buf(t2);
            }
            (R_OK, t)
        } else if self.senders_waiting() > 0 {
            let t = self.take_from_sender();
            (R_OK, t)
        } else if self.sc == 0 {
            (R_SENDCLOSED, 0)
        } else {
            (R_FALSE, 0)
        }
    }

    /// one API call on the model; returns the expected result
    pub fn apply(&mut self, a: Act) -> Res {
        let f = a.f as usize;
        let mut r = RES0;
        match a.k {
            A_TRY_SEND | A_TRY_SEND_OPT | A_TRY_SEND_RT | A_TRY_SEND_OPT_RT | A_SEND => {
                r.code = self.admit(a.tag);
            }
            A_SEND_TIMEOUT | A_SEND_OPT_TIMEOUT => {
                // zero-duration timed send: what cannot complete at once times out
                r.code = self.admit(a.tag);
                if r.code == R_FALSE {
                    r.code = R_TIMEOUT;
                }
            }
            A_ASEND_NEW => {
                self.sf[f] = FutS {
                    st: F_NEW,
                    tag: a.tag,
                    res: 0,
                    waker: 0,
                };
            }
            A_ASEND_START | A_ASEND_POLL => {
                if a.k == A_ASEND_START {
                    self.sf[f] = FutS {
                        st: F_NEW,
                        tag: a.tag,
                        res: 0,
                        waker: 0,
                    };
                }
                let st = self.sf[f].st;
                if st == F_NEW {
                    let c = self.admit(self.sf[f].tag);
                    if c == R_FALSE {
                        self.sf[f].st = F_WAIT;
                        self.sf[f].waker = a.w;
                        self.push_wq(WEntry {
                            is_send: true,
                            fut: a.f,
                        });
                        r.code = R_PENDING;
                    } else {
                        self.sf[f].st = F_DONE;
                        r.code = c;
                    }
                } else if st == F_WAIT {
                    self.sf[f].waker = a.w;
                    r.code = R_PENDING;
                } else if st == F_COMPLETE {
                    self.sf[f].st = F_DONE;
                    r.code = self.sf[f].res;
                }
            }
            A_ASEND_DROP => {
                if self.sf[f].st == F_WAIT {
                    self.remove_wq(true, a.f);
                }
                self.sf[f].st = F_NONE;
            }
            A_RECV | A_TRY_RECV | A_TRY_RECV_RT => {
                let (c, t) = self.obtain();
                r.code = c;
                r.tag = t;
                if c == R_OK {
                    self.note(t);
                }
            }
            A_RECV_TIMEOUT => {
                let (c, t) = self.obtain();
                r.code = if c == R_FALSE { R_TIMEOUT } else { c };
                r.tag = t;
                if c == R_OK {
                    self.note(t);
                }
            }
            A_DRAIN => {
                if self.rc == 0 {
                    r.code = R_CLOSED;
                } else {
                    let n = self.blen + self.senders_waiting();
                    while self.blen > 0 {
                        let t = self.pop_buf();
                        self.note(t);
                    }
                    while self.senders_waiting() > 0 {
                        let t = self.take_from_sender();
                        self.note(t);
                    }
                    r.code = R_COUNT;
                    r.tag = n as u8;
                    r.aux = n as u8;
                }
            }
            A_ARECV_NEW => {
                self.rf[f] = FutS {
                    st: F_NEW,
                    tag: 0,
                    res: 0,
                    waker: 0,
                };
            }
            A_ARECV_START | A_ARECV_POLL | A_STREAM_START | A_STREAM_POLL => {
                let stream = a.k == A_STREAM_START || a.k == A_STREAM_POLL;
                let f = if stream { 3 } else { f };
                if a.k == A_ARECV_START || a.k == A_STREAM_START {
                    self.rf[f] = FutS {
                        st: F_NEW,
                        tag: 0,
                        res: 0,
                        waker: 0,
                    };
                    if stream {
                        self.stream_ended = false;
                    }
                }
                if stream && self.stream_ended {
                    r.code = R_END;
                    return r;
                }
                if stream && self.rf[f].st == F_DONE {
                    // the stream re-arms its inner future after every item
                    self.rf[f].st = F_NEW;
                }
                let st = self.rf[f].st;
                if st == F_NEW {
                    let (c, t) = self.obtain();
                    if c == R_FALSE {
                        self.rf[f].st = F_WAIT;
                        self.rf[f].waker = a.w;
                        self.push_wq(WEntry {
                            is_send: false,
                            fut: f as u8,
                        });
                        r.code = R_PENDING;
                    } else {
                        self.rf[f].st = F_DONE;
                        r.code = c;
                        r.tag = t;
                        if c == R_OK {
                            self.note(t);
                        }
                    }
                } else if st == F_WAIT {
                    self.rf[f].waker = a.w;
                    r.code = R_PENDING;
                } else if st == F_COMPLETE {
                    self.rf[f].st = F_DONE;
                    r.code = self.rf[f].res;
                    r.tag = if r.code == R_OK { self.rf[f].tag } else { 0 };
                    if r.code == R_OK {
                        let t = r.tag;
                        self.note(t);
                    }
                }
                if stream && r.code != R_OK && r.code != R_PENDING {
                    self.stream_ended = true;
                    r.code = R_END;
                    r.tag = 0;
                }
            }
            A_ARECV_DROP | A_STREAM_DROP => {
                let f = if a.k == A_STREAM_DROP { 3 } else { f };
                if self.rf[f].st == F_WAIT {
                    self.remove_wq(false, f as u8);
                }
                self.rf[f].st = F_NONE;
            }
            A_CLOSE_S | A_CLOSE_R => {
                if self.closed() {
                    r.code = R_ERR;
                } else {
                    self.sc = 0;
                    self.rc = 0;
                    self.terminate_all();
                    while self.blen > 0 {
                        let t = self.pop_buf();
                        self.destroyed[t as usize] = true;
                    }
                    r.code = R_OK;
                }
            }
            A_DROP_S => {
                if self.sc > 0 {
                    self.sc -= 1;
                    if self.sc == 0 && self.rc != 0 {
                        self.terminate_all();
                    }
                }
            }
            A_DROP_R => {
                if self.rc > 0 {
                    self.rc -= 1;
                    if self.rc == 0 && self.sc != 0 {
                        self.terminate_all();
                    }
                }
            }
            A_CLONE_S => {
                if self.sc > 0 {
                    self.sc += 1;
                }
            }
            A_CLONE_R => {
                if self.rc > 0 {
                    self.rc += 1;
                }
            }
            _ => {}
        }
        r
    }
}
