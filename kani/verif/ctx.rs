//! Scenario context: handles, futures in flight, the action interpreter that
//! runs real kanal API calls as logical threads, ghost ledgers, and the
//! abstraction function of the real channel state.
use super::model::{self, MAX_SLOTS};
use super::payload::{Payload, NTAGS};
use super::waker;
use crate::internal::{acquire_internal, Internal};
use crate::signal::SignalTerminator;
use crate::{
    AsyncReceiver, AsyncSender, ReceiveError, ReceiveErrorTimeout, ReceiveFuture, ReceiveStream,
    Receiver, SendError, SendErrorTimeout, SendFuture, Sender,
};
use core::future::Future;
use core::pin::Pin;
use core::task::{Context, Poll};
use core::time::Duration;
use futures_core::Stream;

pub const NH: usize = 3; // handles per side
pub const NF: usize = 3; // futures in flight per side
pub const ORDER_MAX: usize = 12;

// ---- result codes -------------------------------------------------------
pub const R_NONE: u8 = 0;
pub const R_OK: u8 = 1; // send accepted / value received (tag in .tag)
pub const R_FALSE: u8 = 2; // try_send -> Ok(false), try_recv -> Ok(None)
pub const R_CLOSED: u8 = 3;
pub const R_SENDCLOSED: u8 = 4;
pub const R_RECVCLOSED: u8 = 5;
pub const R_TIMEOUT: u8 = 6;
pub const R_PENDING: u8 = 7;
pub const R_COUNT: u8 = 8; // drain_into -> Ok(n), n in .aux
pub const R_ERR: u8 = 9; // close() -> Err
pub const R_END: u8 = 10; // stream -> Ready(None)

#[derive(Clone, Copy, PartialEq, Eq)]
pub struct Res {
    pub code: u8,
    pub tag: u8,
    pub aux: u8,
}
pub const RES0: Res = Res {
    code: R_NONE,
    tag: 0,
    aux: 0,
};
fn res(code: u8) -> Res {
    Res {
        code,
        tag: 0,
        aux: 0,
    }
}

// ---- actions ------------------------------------------------------------
pub const A_NOP: u8 = 0;
pub const A_SEND: u8 = 1;
pub const A_TRY_SEND: u8 = 2;
pub const A_TRY_SEND_OPT: u8 = 3;
pub const A_TRY_SEND_RT: u8 = 4;
pub const A_TRY_SEND_OPT_RT: u8 = 5;
pub const A_SEND_TIMEOUT: u8 = 6;
pub const A_SEND_OPT_TIMEOUT: u8 = 7;
pub const A_ASEND_START: u8 = 8; // create send future f, poll once with waker w
pub const A_ASEND_POLL: u8 = 9;
pub const A_ASEND_DROP: u8 = 10;
pub const A_RECV: u8 = 11;
pub const A_TRY_RECV: u8 = 12;
pub const A_TRY_RECV_RT: u8 = 13;
pub const A_RECV_TIMEOUT: u8 = 14;
pub const A_DRAIN: u8 = 15;
pub const A_ARECV_START: u8 = 16;
pub const A_ARECV_POLL: u8 = 17;
pub const A_ARECV_DROP: u8 = 18;
pub const A_CLOSE_S: u8 = 19;
pub const A_CLOSE_R: u8 = 20;
pub const A_DROP_S: u8 = 21;
pub const A_DROP_R: u8 = 22;
pub const A_CLONE_S: u8 = 23; // clone handle h into the first free slot
pub const A_CLONE_R: u8 = 24;
pub const A_CLAIM_SENDER: u8 = 25; // split phase 1: pop the oldest blocked sender under the lock
pub const A_FINISH_RECV: u8 = 26; // split phase 2: take the claimed sender's value
pub const A_CLAIM_RECEIVER: u8 = 27;
pub const A_FINISH_SEND: u8 = 28;
pub const A_FINISH_TERMINATE: u8 = 29;
pub const A_ADVANCE: u8 = 30; // move the virtual clock forward by d seconds
pub const A_STREAM_START: u8 = 31;
pub const A_STREAM_POLL: u8 = 32;
pub const A_STREAM_DROP: u8 = 33;
pub const A_ASEND_NEW: u8 = 34; // create the future without polling it
pub const A_ARECV_NEW: u8 = 35;
pub const A_CONVERT_S: u8 = 36; // to_async().to_sync() round trip of handle h
pub const A_CONVERT_R: u8 = 37;
pub const A_OBSERVE: u8 = 38; // read every observer through sender handle h: len in .tag, flags/counts in .aux
/// Pre-state generalisation (not an API call): advance the ring position of the (empty) waiting list /
/// buffer by `d` places, so that later entries wrap around the end of the allocation.  Any history of
/// `d` served waiters / delivered values leaves the ring in this position.
pub const A_ROT_W: u8 = 39;
pub const A_ROT_Q: u8 = 40;

#[derive(Clone, Copy)]
pub struct Act {
    pub k: u8,
    /// handle index
    pub h: u8,
    pub tag: u8,
    /// future index
    pub f: u8,
    /// waker id
    pub w: u8,
    /// duration in virtual seconds
    pub d: u8,
}
pub const NOP: Act = Act {
    k: A_NOP,
    h: 0,
    tag: 0,
    f: 0,
    w: 0,
    d: 0,
};
pub fn act(k: u8) -> Act {
    Act { k, ..NOP }
}
impl Act {
    pub fn h(mut self, h: u8) -> Self {
        self.h = h;
        self
    }
    pub fn tag(mut self, t: u8) -> Self {
        self.tag = t;
        self
    }
    pub fn f(mut self, f: u8) -> Self {
        self.f = f;
        self
    }
    pub fn w(mut self, w: u8) -> Self {
        self.w = w;
        self
    }
    pub fn d(mut self, d: u8) -> Self {
        self.d = d;
        self
    }
}

pub struct Ctx<T: Payload + 'static> {
    pub s: [Option<Sender<T>>; NH],
    pub r: [Option<Receiver<T>>; NH],
    pub sf: [Option<Pin<Box<SendFuture<'static, T>>>>; NF],
    pub rf: [Option<Pin<Box<ReceiveFuture<'static, T>>>>; NF],
    pub stream: Option<Pin<Box<ReceiveStream<'static, T>>>>,
    pub claimed: Option<SignalTerminator<T>>,
    /// extra Arc on the channel state for the lock probe / abstraction function
    pub probe: Option<Internal<T>>,
    pub plan: [Act; MAX_SLOTS],
    pub plan_thread: [u8; MAX_SLOTS],
    pub res: [Res; MAX_SLOTS],
    pub vec: Vec<T>,
    // ---- ledgers ----
    pub offered: [u8; NTAGS],
    pub got: [u8; NTAGS],
    pub sent_bits: [[u64; 3]; NTAGS],
    pub bits_ok: bool,
    pub order: [u8; ORDER_MAX],
    pub order_len: usize,
    /// value handed back in the Option of *_option calls after the call (0 = None)
    pub opt_back: u8,
}

/// type-erased pointer to the live context (generic statics do not exist)
pub static mut CTX: *mut () = core::ptr::null_mut();

pub fn hook_pub<T: Payload + 'static>(slot: usize) {
    unsafe {
        let cx = CTX as *mut Ctx<T>;
        let a = (*cx).plan[slot];
        let t = (*cx).plan_thread[slot];
        let r = model::as_thread(t, || exec(cx, a));
        (*cx).res[slot] = r;
    }
}

pub fn probe_pub<T: Payload + 'static>() -> bool {
    unsafe {
        let cx = CTX as *mut Ctx<T>;
        match &(*cx).probe {
            Some(i) => i.is_locked(),
            None => false,
        }
    }
}

#[derive(Clone, Copy, PartialEq, Eq)]
pub struct Abs {
    pub qlen: usize,
    pub wlen: usize,
    pub recv_blocking: bool,
    pub send_count: u32,
    pub recv_count: u32,
    pub capacity: usize,
    /// owners of the channel state (Arc strong count), the probe included
    pub strong: usize,
}

impl<T: Payload + 'static> Ctx<T> {
    /// cap: Some(n) bounded, None unbounded
    pub fn new(cap: Option<usize>) -> Self {
        let (s, r) = match cap {
            Some(n) => crate::bounded::<T>(n),
            None => crate::unbounded::<T>(),
        };
        let probe = Some(s.internal.clone());
        Ctx {
            s: [Some(s), None, None],
            r: [Some(r), None, None],
            sf: [None, None, None],
            rf: [None, None, None],
            stream: None,
            claimed: None,
            probe,
            plan: [NOP; MAX_SLOTS],
            plan_thread: [0; MAX_SLOTS],
            res: [RES0; MAX_SLOTS],
            vec: Vec::new(),
            offered: [0; NTAGS],
            got: [0; NTAGS],
            sent_bits: [[0; 3]; NTAGS],
            bits_ok: true,
            order: [0; ORDER_MAX],
            order_len: 0,
            opt_back: 0,
        }
    }

    /// make this context the target of the scheduler hooks
    pub fn install(&mut self) {
        unsafe {
            CTX = self as *mut Ctx<T> as *mut ();
            model::HOOK = Some(hook_pub::<T>);
            model::LOCK_PROBE = Some(probe_pub::<T>);
        }
    }

    /// plan: when logical thread `on_thread` reaches `site`, run `a` as logical thread `as_thread`
    pub fn inject(&mut self, slot: usize, on_thread: u8, site: u16, as_thread: u8, a: Act) {
        self.plan[slot] = a;
        self.plan_thread[slot] = as_thread;
        model::arm(slot, on_thread, site);
    }

    /// like inject, firing at the nth (0-based) arrival at the site
    pub fn inject_nth(&mut self, slot: usize, on_thread: u8, site: u16, nth: u8, as_thread: u8, a: Act) {
        self.plan[slot] = a;
        self.plan_thread[slot] = as_thread;
        model::arm_nth(slot, on_thread, site, nth);
    }

    pub fn abs(&self) -> Abs {
        let g = acquire_internal(self.probe.as_ref().unwrap());
        Abs {
            qlen: g.queue.len(),
            wlen: g.wait_list.len(),
            recv_blocking: g.recv_blocking,
            send_count: g.send_count,
            recv_count: g.recv_count,
            capacity: g.capacity,
            strong: ::std::sync::Arc::strong_count(self.probe.as_ref().unwrap()),
        }
    }

    /// drop every future, handle and the probe: the channel state is destroyed
    pub fn teardown(&mut self) {
        self.stream = None;
        let mut i = 0;
        while i < NF {
            self.sf[i] = None;
            self.rf[i] = None;
            i += 1;
        }
        let mut i = 0;
        while i < NH {
            self.s[i] = None;
            self.r[i] = None;
            i += 1;
        }
        self.vec.clear();
        self.probe = None;
    }
}

unsafe fn offer<T: Payload + 'static>(cx: *mut Ctx<T>, tag: u8) -> T {
    let v = T::make(tag);
    (*cx).sent_bits[tag as usize] = v.bits();
    (*cx).offered[tag as usize] += 1;
    v
}

/// a receive operation obtained `v`
unsafe fn take<T: Payload + 'static>(cx: *mut Ctx<T>, v: T) -> Res {
    let tag = v.tag();
    if T::TAGGED {
        if (tag as usize) < NTAGS {
            (*cx).got[tag as usize] += 1;
            if (*cx).offered[tag as usize] == 0 || !same_bits(&v.bits(), &(*cx).sent_bits[tag as usize]) {
                (*cx).bits_ok = false;
            }
        } else {
            (*cx).bits_ok = false;
        }
    } else {
        (*cx).got[0] += 1;
        if !same_bits(&v.bits(), &[0; 3]) {
            (*cx).bits_ok = false;
        }
    }
    if (*cx).order_len < ORDER_MAX {
        (*cx).order[(*cx).order_len] = tag;
        (*cx).order_len += 1;
    }
    drop(v);
    Res {
        code: R_OK,
        tag,
        aux: 0,
    }
}

pub fn same_bits(a: &[u64; 3], b: &[u64; 3]) -> bool {
    a[0] == b[0] && a[1] == b[1] && a[2] == b[2]
}

fn send_res(r: Result<(), SendError>) -> Res {
    match r {
        Ok(()) => res(R_OK),
        Err(SendError::Closed) => res(R_CLOSED),
        Err(SendError::ReceiveClosed) => res(R_RECVCLOSED),
    }
}
fn try_send_res(r: Result<bool, SendError>) -> Res {
    match r {
        Ok(true) => res(R_OK),
        Ok(false) => res(R_FALSE),
        Err(SendError::Closed) => res(R_CLOSED),
        Err(SendError::ReceiveClosed) => res(R_RECVCLOSED),
    }
}
fn send_to_res(r: Result<(), SendErrorTimeout>) -> Res {
    match r {
        Ok(()) => res(R_OK),
        Err(SendErrorTimeout::Closed) => res(R_CLOSED),
        Err(SendErrorTimeout::ReceiveClosed) => res(R_RECVCLOSED),
        Err(SendErrorTimeout::Timeout) => res(R_TIMEOUT),
    }
}

/// the Option of a *_option call after it returned: record and drop what is left in it
unsafe fn opt_after<T: Payload + 'static>(cx: *mut Ctx<T>, o: Option<T>) {
    (*cx).opt_back = match &o {
        Some(v) => {
            if T::TAGGED {
                v.tag()
            } else {
                1
            }
        }
        None => 0,
    };
    drop(o);
}

fn waker_ctx<R>(w: u8, f: impl FnOnce(&mut Context<'_>) -> R) -> R {
    let wk = waker::waker(w as usize);
    let mut c = Context::from_waker(&wk);
    f(&mut c)
}

/// run one real API call
pub unsafe fn exec<T: Payload + 'static>(cx: *mut Ctx<T>, a: Act) -> Res {
    let h = a.h as usize;
    let f = a.f as usize;
    match a.k {
        A_NOP => RES0,
        A_SEND => {
            let v = offer(cx, a.tag);
            send_res((*cx).s[h].as_ref().unwrap().send(v))
        }
        A_TRY_SEND => {
            let v = offer(cx, a.tag);
            try_send_res((*cx).s[h].as_ref().unwrap().try_send(v))
        }
        A_TRY_SEND_RT => {
            let v = offer(cx, a.tag);
            try_send_res((*cx).s[h].as_ref().unwrap().try_send_realtime(v))
        }
        A_TRY_SEND_OPT => {
            let mut o = Some(offer(cx, a.tag));
            let r = try_send_res((*cx).s[h].as_ref().unwrap().try_send_option(&mut o));
            opt_after(cx, o);
            r
        }
        A_TRY_SEND_OPT_RT => {
            let mut o = Some(offer(cx, a.tag));
            let r = try_send_res(
                (*cx).s[h]
                    .as_ref()
                    .unwrap()
                    .try_send_option_realtime(&mut o),
            );
            opt_after(cx, o);
            r
        }
        A_SEND_TIMEOUT => {
            let v = offer(cx, a.tag);
            send_to_res(
                (*cx).s[h]
                    .as_ref()
                    .unwrap()
                    .send_timeout(v, Duration::from_secs(a.d as u64)),
            )
        }
        A_SEND_OPT_TIMEOUT => {
            let mut o = Some(offer(cx, a.tag));
            let r = send_to_res(
                (*cx).s[h]
                    .as_ref()
                    .unwrap()
                    .send_option_timeout(&mut o, Duration::from_secs(a.d as u64)),
            );
            opt_after(cx, o);
            r
        }
        A_ASEND_NEW | A_ASEND_START => {
            let v = offer(cx, a.tag);
            let sref: &'static AsyncSender<T> =
                core::mem::transmute((*cx).s[h].as_ref().unwrap().as_async());
            (*cx).sf[f] = Some(Box::pin(sref.send(v)));
            if a.k == A_ASEND_START {
                poll_sf(cx, f, a.w)
            } else {
                RES0
            }
        }
        A_ASEND_POLL => poll_sf(cx, f, a.w),
        A_ASEND_DROP => {
            (*cx).sf[f] = None;
            RES0
        }
        A_RECV => match (*cx).r[h].as_ref().unwrap().recv() {
            Ok(v) => take(cx, v),
            Err(ReceiveError::Closed) => res(R_CLOSED),
            Err(ReceiveError::SendClosed) => res(R_SENDCLOSED),
        },
        A_TRY_RECV | A_TRY_RECV_RT => {
            let rr = if a.k == A_TRY_RECV {
                (*cx).r[h].as_ref().unwrap().try_recv()
            } else {
                (*cx).r[h].as_ref().unwrap().try_recv_realtime()
            };
            match rr {
                Ok(Some(v)) => take(cx, v),
                Ok(None) => res(R_FALSE),
                Err(ReceiveError::Closed) => res(R_CLOSED),
                Err(ReceiveError::SendClosed) => res(R_SENDCLOSED),
            }
        }
        A_RECV_TIMEOUT => {
            match (*cx).r[h]
                .as_ref()
                .unwrap()
                .recv_timeout(Duration::from_secs(a.d as u64))
            {
                Ok(v) => take(cx, v),
                Err(ReceiveErrorTimeout::Closed) => res(R_CLOSED),
                Err(ReceiveErrorTimeout::SendClosed) => res(R_SENDCLOSED),
                Err(ReceiveErrorTimeout::Timeout) => res(R_TIMEOUT),
            }
        }
        A_DRAIN => {
            let before = (*cx).vec.len();
            match (*cx).r[h].as_ref().unwrap().drain_into(&mut (*cx).vec) {
                Ok(n) => {
                    let after = (*cx).vec.len();
                    // everything appended is consumed, oldest first
                    let mut k = 0;
                    while k < after - before {
                        let v = (*cx).vec.remove(before);
                        take(cx, v);
                        k += 1;
                    }
                    Res {
                        code: R_COUNT,
                        tag: (after - before) as u8,
                        aux: n as u8,
                    }
                }
                Err(ReceiveError::Closed) => res(R_CLOSED),
                Err(ReceiveError::SendClosed) => res(R_SENDCLOSED),
            }
        }
        A_ARECV_NEW | A_ARECV_START => {
            let rref: &'static AsyncReceiver<T> =
                core::mem::transmute((*cx).r[h].as_ref().unwrap().as_async());
            (*cx).rf[f] = Some(Box::pin(rref.recv()));
            if a.k == A_ARECV_START {
                poll_rf(cx, f, a.w)
            } else {
                RES0
            }
        }
        A_ARECV_POLL => poll_rf(cx, f, a.w),
        A_ARECV_DROP => {
            (*cx).rf[f] = None;
            RES0
        }
        A_STREAM_START => {
            let rref: &'static AsyncReceiver<T> =
                core::mem::transmute((*cx).r[h].as_ref().unwrap().as_async());
            (*cx).stream = Some(Box::pin(rref.stream()));
            poll_stream(cx, a.w)
        }
        A_STREAM_POLL => poll_stream(cx, a.w),
        A_STREAM_DROP => {
            (*cx).stream = None;
            RES0
        }
        A_CLOSE_S => match (*cx).s[h].as_ref().unwrap().close() {
            Ok(()) => res(R_OK),
            Err(_) => res(R_ERR),
        },
        A_CLOSE_R => match (*cx).r[h].as_ref().unwrap().close() {
            Ok(()) => res(R_OK),
            Err(_) => res(R_ERR),
        },
        A_DROP_S => {
            // d == 1: the handle ends its life as an AsyncSender (its own Drop impl)
            let x = (*cx).s[h].take();
            if a.d == 1 {
                drop(x.map(|s| s.to_async()));
            } else {
                drop(x);
            }
            RES0
        }
        A_DROP_R => {
            let x = (*cx).r[h].take();
            if a.d == 1 {
                drop(x.map(|r| r.to_async()));
            } else {
                drop(x);
            }
            RES0
        }
        A_OBSERVE => {
            let sh = (*cx).s[h].as_ref().unwrap();
            let len = sh.len();
            let mut aux = 0u8;
            if sh.is_full() {
                aux |= 1;
            }
            if sh.is_empty() {
                aux |= 2;
            }
            if sh.is_closed() {
                aux |= 4;
            }
            if sh.is_disconnected() {
                aux |= 8;
            }
            aux |= ((sh.sender_count() as u8) & 3) << 4;
            aux |= ((sh.receiver_count() as u8) & 3) << 6;
            Res {
                code: R_NONE,
                tag: len as u8,
                aux,
            }
        }
        A_ROT_W => {
            let mut g = acquire_internal((*cx).probe.as_ref().unwrap());
            assert!(g.wait_list.is_empty(), "harness: ring rotation needs an empty waiting list");
            let mut i = 0;
            while i < a.d {
                g.wait_list.push_back(crate::signal::SignalTerminator::from(core::ptr::null::<crate::signal::Signal<T>>()));
                let x = g.wait_list.pop_front();
                core::mem::forget(x);
                i += 1;
            }
            RES0
        }
        A_ROT_Q => {
            let mut g = acquire_internal((*cx).probe.as_ref().unwrap());
            assert!(g.queue.is_empty(), "harness: ring rotation needs an empty buffer");
            let mut i = 0;
            while i < a.d && core::mem::size_of::<T>() > 0 {
                g.queue.push_back(core::mem::zeroed::<T>());
                let x = g.queue.pop_front();
                core::mem::forget(x);
                i += 1;
            }
            RES0
        }
        A_CONVERT_S => {
            let x = (*cx).s[h].take().unwrap();
            (*cx).s[h] = Some(x.to_async().to_sync());
            RES0
        }
        A_CONVERT_R => {
            let x = (*cx).r[h].take().unwrap();
            (*cx).r[h] = Some(x.to_async().to_sync());
            RES0
        }
        A_CLONE_S => {
            let src = (*cx).s[h].as_ref().unwrap();
            let c = match a.d {
                0 => src.clone(),
                1 => src.clone_async().to_sync(),
                2 => src.as_async().clone().to_sync(),
                _ => src.as_async().clone_sync(),
            };
            let mut i = 0;
            let mut c = Some(c);
            while i < NH {
                if (*cx).s[i].is_none() && c.is_some() {
                    (*cx).s[i] = c.take();
                }
                i += 1;
            }
            RES0
        }
        A_CLONE_R => {
            let src = (*cx).r[h].as_ref().unwrap();
            let c = match a.d {
                0 => src.clone(),
                1 => src.clone_async().to_sync(),
                2 => src.as_async().clone().to_sync(),
                _ => src.as_async().clone_sync(),
            };
            let mut i = 0;
            let mut c = Some(c);
            while i < NH {
                if (*cx).r[i].is_none() && c.is_some() {
                    (*cx).r[i] = c.take();
                }
                i += 1;
            }
            RES0
        }
        A_CLAIM_SENDER => {
            let mut g = acquire_internal((*cx).probe.as_ref().unwrap());
            let t = g.next_send();
            drop(g);
            let ok = t.is_some();
            (*cx).claimed = t;
            res(if ok { R_OK } else { R_FALSE })
        }
        A_CLAIM_RECEIVER => {
            let mut g = acquire_internal((*cx).probe.as_ref().unwrap());
            let t = g.next_recv();
            drop(g);
            let ok = t.is_some();
            (*cx).claimed = t;
            res(if ok { R_OK } else { R_FALSE })
        }
        A_FINISH_RECV => match (*cx).claimed.take() {
            Some(t) => take(cx, t.recv()),
            None => res(R_FALSE),
        },
        A_FINISH_SEND => match (*cx).claimed.take() {
            Some(t) => {
                let v = offer(cx, a.tag);
                t.send(v);
                res(R_OK)
            }
            None => res(R_FALSE),
        },
        A_FINISH_TERMINATE => match (*cx).claimed.take() {
            Some(t) => {
                t.terminate();
                res(R_OK)
            }
            None => res(R_FALSE),
        },
        A_ADVANCE => {
            model::NOW_S += a.d as u64;
            RES0
        }
        _ => {
            assert!(false, "unknown action");
            RES0
        }
    }
}

unsafe fn poll_sf<T: Payload + 'static>(cx: *mut Ctx<T>, f: usize, w: u8) -> Res {
    let fut = (*cx).sf[f].as_mut().unwrap();
    match waker_ctx(w, |c| fut.as_mut().poll(c)) {
        Poll::Pending => res(R_PENDING),
        Poll::Ready(r) => send_res(r),
    }
}

unsafe fn poll_rf<T: Payload + 'static>(cx: *mut Ctx<T>, f: usize, w: u8) -> Res {
    let fut = (*cx).rf[f].as_mut().unwrap();
    match waker_ctx(w, |c| fut.as_mut().poll(c)) {
        Poll::Pending => res(R_PENDING),
        Poll::Ready(Ok(v)) => take(cx, v),
        Poll::Ready(Err(ReceiveError::Closed)) => res(R_CLOSED),
        Poll::Ready(Err(ReceiveError::SendClosed)) => res(R_SENDCLOSED),
    }
}

unsafe fn poll_stream<T: Payload + 'static>(cx: *mut Ctx<T>, w: u8) -> Res {
    let st = (*cx).stream.as_mut().unwrap();
    match waker_ctx(w, |c| st.as_mut().poll_next(c)) {
        Poll::Pending => res(R_PENDING),
        Poll::Ready(Some(v)) => take(cx, v),
        Poll::Ready(None) => res(R_END),
    }
}
