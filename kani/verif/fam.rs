//! Harness families: generic scenario bodies instantiated (one Kani proof per
//! concrete parameter vector) by the generated module `h_gen.rs`.
use super::ctx::*;
use super::model;
use super::payload::*;
use super::waker;
use crate::verif::*;

pub const SENDERISH: u8 = 1; // peer gives a value
pub const RECEIVERISH: u8 = 2; // peer takes a value
pub const CLOSER: u8 = 3; // close() from some handle
pub const LASTDROP: u8 = 4; // drop of the last handle of the opposite side
pub const OTHER: u8 = 5;

pub fn class_of(k: u8) -> u8 {
    match k {
        A_SEND | A_TRY_SEND | A_TRY_SEND_OPT | A_TRY_SEND_RT | A_TRY_SEND_OPT_RT
        | A_SEND_TIMEOUT | A_SEND_OPT_TIMEOUT | A_ASEND_START => SENDERISH,
        A_RECV | A_TRY_RECV | A_TRY_RECV_RT | A_RECV_TIMEOUT | A_DRAIN | A_ARECV_START => {
            RECEIVERISH
        }
        A_CLOSE_S | A_CLOSE_R => CLOSER,
        A_DROP_S | A_DROP_R => LASTDROP,
        _ => OTHER,
    }
}

fn is_timed(k: u8) -> bool {
    k == A_SEND_TIMEOUT || k == A_SEND_OPT_TIMEOUT || k == A_RECV_TIMEOUT
}

fn is_err(c: u8) -> bool {
    c == R_CLOSED || c == R_SENDCLOSED || c == R_RECVCLOSED
}

/// symbolic environment knobs shared by the blocking families
/// clock modes: 0 = symbolic time; k > 0 = concrete script k (d is then 5 seconds)
pub const SCRIPTS: [[u8; 6]; 5] = [
    [0, 0, 0, 0, 0, 0], // unused (symbolic)
    [0, 9, 0, 0, 0, 0], // deadline passed at the first check
    [0, 5, 0, 9, 0, 0], // exactly the deadline at the first check
    [0, 0, 9, 0, 0, 0], // one reading before the deadline, then passed
    [0, 0, 0, 5, 9, 0], // two readings before, then exactly, then passed
];

/// par: 0 = symbolic in {1,2}, else the concrete value
pub fn sym_env(spurious_plan: u8, clock: u8, par: u8) -> u8 {
    unsafe {
        model::SPURIOUS_PLAN = spurious_plan;
        model::PAR = if par == 0 {
            if kani::any() {
                1
            } else {
                2
            }
        } else {
            par as usize
        };
        if clock == 0 {
            model::CLOCK_SYMBOLIC = true;
            kani::any()
        } else {
            model::CLOCK_SYMBOLIC = false;
            model::CLOCK_SCRIPT = SCRIPTS[clock as usize];
            5
        }
    }
}

/// drain whatever is still obtainable, destroy the channel, check the ledger:
/// every offered tag was dropped exactly once and received at most once.
pub fn epilogue<T: Payload + 'static>(cx: &mut Ctx<T>, ntags: u8) {
    unsafe {
        model::STUCK_IS_BUG = true;
    }
    // no scheduling from here on
    let mut i = 0;
    while i < 3 {
        if cx.r[0].is_some() {
            let _ = unsafe { exec(cx, act(A_TRY_RECV)) };
        }
        i += 1;
    }
    cx.teardown();
    assert!(cx.bits_ok, "C04: a received value differs from the value sent / was never sent");
    if T::DROPPY && !T::TAGGED {
        // zero-sized droppable payload: as many drops as constructions, no more, no less
        assert!(drops(0) == unsafe { ZD_MADE }, "C01/C05: a zero-sized droppable value was duplicated or leaked");
    }
    let mut t = 1u8;
    while t <= ntags {
        if cx.offered[t as usize] > 0 {
            assert!(cx.got[t as usize] <= 1, "C01: value delivered twice");
            if T::DROPPY && T::TAGGED {
                assert!(drops(t) >= 1, "C05: value leaked (never dropped)");
                assert!(drops(t) <= 1, "C05: value dropped twice");
            }
        } else {
            assert!(cx.got[t as usize] == 0, "C01: value received that nobody sent");
        }
        t += 1;
    }
}

/// Family B: one blocked sync operation (thread 0), one peer action (thread 1)
/// injected at a concrete site.
///  * outer_k: A_SEND | A_SEND_TIMEOUT | A_SEND_OPT_TIMEOUT (tag 1, on a full channel)
///             A_RECV | A_RECV_TIMEOUT (on an empty channel)
///  * cap: 0 or 1 (cap 1 is pre-filled with tag 3 for a sender outer)
///  * peer_k: any action; peer_h selects the handle (for last-drop the only handle)
pub fn blocked<T: Payload + 'static>(
    cap: usize,
    outer_k: u8,
    site: u16,
    peer_k: u8,
    spur: u8,
    clock: u8,
    par: u8,
    peer_d: u8,
) {
    let d: u8 = sym_env(spur, clock, par);
    let mut cx = Ctx::<T>::new(Some(cap));
    cx.install();
    let outer_sends = class_of(outer_k) == SENDERISH;
    let mut prefilled = false;
    if outer_sends && cap == 1 {
        let r = unsafe { exec(&mut cx, act(A_TRY_SEND).tag(3)) };
        assert!(r.code == R_OK);
        prefilled = true;
    }
    // peer uses tag 2 when it sends; an async peer is polled with waker 1
    cx.inject(0, 0, site, 1, act(peer_k).tag(2).w(1).d(peer_d));
    let t0 = model::std::time::peek().secs();
    let r = unsafe { exec(&mut cx, act(outer_k).tag(1).d(d)) };
    let t1 = model::std::time::peek().secs();
    let fired = model::fired(0);
    let p = cx.res[0];
    let pc = class_of(peer_k);

    // ---- oracle -------------------------------------------------------
    let peer_moved = fired
        && ((p.code == R_OK && (pc == SENDERISH || pc == RECEIVERISH))
            || (p.code == R_COUNT && p.tag > 0));
    let peer_killed = fired && (pc == CLOSER && p.code == R_OK || pc == LASTDROP);
    if outer_sends {
        if fired && pc == RECEIVERISH {
            // a receive that arrives while a sender is blocked on a full channel always obtains a value
            assert!(
                p.code == R_OK || (p.code == R_COUNT && p.tag > 0),
                "C06/C14: receive found nothing although a sender was blocked"
            );
            if p.code == R_COUNT {
                assert!(p.aux == p.tag, "C19: drain_into count differs from values appended");
                assert!(
                    p.tag == if prefilled { 2 } else { 1 },
                    "C19: drain_into did not take everything available"
                );
            }
        }
        if peer_moved && pc == RECEIVERISH {
            assert!(r.code == R_OK, "C06: blocked send not completed although a receiver took a value");
            // FIFO: the buffered value comes out before the blocked sender's value
            assert!(
                !T::TAGGED || cx.order[0] == if prefilled { 3 } else { 1 },
                "C02: receive did not obtain the oldest value"
            );
        } else if peer_killed {
            assert!(is_err(r.code), "C10/C11: blocked send not released with an error by close/disconnect");
        } else if is_timed(outer_k) {
            assert!(r.code == R_TIMEOUT, "C13: timed send neither completed nor timed out");
        }
    } else {
        if peer_moved && pc == SENDERISH {
            assert!(r.code == R_OK && (!T::TAGGED || r.tag == 2), "C06: blocked receive not completed by an arriving send");
        } else if peer_killed {
            assert!(is_err(r.code), "C10/C11: blocked receive not released with an error by close/disconnect");
        } else if is_timed(outer_k) {
            assert!(r.code == R_TIMEOUT, "C13: timed receive neither completed nor timed out");
        }
        if fired && pc == SENDERISH && peer_k != A_ASEND_START {
            // a send that arrives while a receiver is blocked hands its value over
            assert!(p.code == R_OK, "C08/C14: send refused although a receiver was blocked");
        }
    }
    if fired && peer_k == A_OBSERVE {
        // an observer running while the operation is blocked sees the registered state, nothing half-applied
        let len = if prefilled { 1 } else { 0 };
        let mut aux = (1u8 << 4) | (1u8 << 6);
        if cap == len {
            aux |= 1;
        }
        if len == 0 {
            aux |= 2;
        }
        assert!(p.tag as usize == len && p.aux == aux, "C03: observer saw a state no atomic channel could be in");
    }
    if r.code == R_TIMEOUT {
        assert!(
            t1 >= t0 + d as u64,
            "C13: timeout reported before the deadline"
        );
        let a = cx.abs();
        assert!(
            a.wlen == 0 || pc == SENDERISH && outer_sends || pc == RECEIVERISH && !outer_sends,
            "C13: timed-out operation left its entry in the waiting list"
        );
    }
    if outer_sends {
        if r.code == R_OK {
            // capacity: success only once the value sits in the buffer or was taken
            let a = cx.abs();
            assert!(a.qlen <= cap, "C08: buffer longer than capacity");
            assert!(
                cx.got[if T::TAGGED { 1 } else { 0 }] >= 1 || a.qlen >= 1,
                "C08/C01: send reported success but the value is nowhere"
            );
        } else {
            // failure / timeout: nobody has or will ever have the value; sender side dropped it once
            assert!(!T::TAGGED || cx.got[1] == 0, "C01: failed send delivered its value");
            if T::DROPPY && T::TAGGED {
                assert!(drops(1) == 1, "C05: failed/timed-out send did not drop (or dropped twice) its value");
            }
            if outer_k == A_SEND_OPT_TIMEOUT {
                assert!(cx.opt_back != 0, "C05: option variant reported failure but kept the value");
            }
        }
        if outer_k == A_SEND_OPT_TIMEOUT && r.code == R_OK {
            assert!(cx.opt_back == 0, "C05: option variant reported success but handed the value back");
        }
    }
    if pc == CLOSER && fired && p.code == R_OK && T::DROPPY && T::TAGGED && prefilled {
        assert!(drops(3) == 1, "C10: buffered value not destroyed by the time close returned");
    }
    kani::cover!(fired && r.code == R_OK, "completed by peer");
    kani::cover!(r.code == R_TIMEOUT, "timed out");
    kani::cover!(is_err(r.code), "released with error");
    // an async peer that is still pending is cancelled here
    cx.sf[0] = None;
    cx.rf[0] = None;
    if r.code != R_OK && outer_sends {
        // value must never surface later
        epilogue(&mut cx, 3);
        assert!(cx.got[1] == 0, "C01/C13: value of a failed send was delivered later");
    } else {
        epilogue(&mut cx, 3);
    }
}

/// reachability canary: must be reported FAILED
pub fn canary<T: Payload + 'static>() {
    let mut cx = Ctx::<T>::new(Some(0));
    cx.install();
    cx.inject(0, 0, SITE_PARK, 1, act(A_RECV));
    let r = unsafe { exec(&mut cx, act(A_SEND).tag(1)) };
    epilogue(&mut cx, 3);
    assert!(r.code != R_OK, "CANARY");
}

fn step<T: Payload + 'static>(cx: &mut Ctx<T>, thread: u8, a: Act) -> Res {
    let p = cx as *mut Ctx<T>;
    model::as_thread(thread, || unsafe { exec(p, a) })
}

/// fill the channel so that the next send must wait: cap 0 -> nothing; cap 1 -> buffer tag 3
fn make_full<T: Payload + 'static>(cx: &mut Ctx<T>, cap: usize) -> bool {
    if cap >= 1 {
        let r = step(cx, 0, act(A_TRY_SEND).tag(3));
        assert!(r.code == R_OK);
        if cap == 2 {
            let r = step(cx, 0, act(A_TRY_SEND).tag(4));
            assert!(r.code == R_OK);
        }
        true
    } else {
        false
    }
}

fn pick_waker() -> u8 {
    if kani::any() {
        0
    } else {
        1
    }
}

/// Family A: a pending future (thread 0), spurious re-polls with the same or a different
/// waker, then one peer action (thread 1) as an ordinary step, then the final poll.
///  * send_side: the future is a SendFuture (tag 1) on a full channel, else a ReceiveFuture
///  * repolls: number of spurious polls before the peer acts (0..2), each with a symbolic waker
pub fn async_waiter<T: Payload + 'static>(cap: usize, send_side: bool, peer_k: u8, repolls: u8, peer_d: u8) {
    sym_env(0, 0, 0);
    let mut cx = Ctx::<T>::new(Some(cap));
    cx.install();
    let prefilled = if send_side { make_full(&mut cx, cap) } else { false };
    let (start, poll) = if send_side {
        (A_ASEND_START, A_ASEND_POLL)
    } else {
        (A_ARECV_START, A_ARECV_POLL)
    };
    let r0 = step(&mut cx, 0, act(start).tag(1).w(0));
    assert!(r0.code == R_PENDING, "C08/C18: operation that must wait did not report Pending");
    assert!(cx.abs().wlen == 1);
    let mut last_w = 0u8;
    let mut i = 0;
    while i < repolls {
        let w = pick_waker();
        let r = step(&mut cx, 0, act(poll).w(w));
        assert!(r.code == R_PENDING, "C16: spurious poll of a pending future did not stay Pending");
        last_w = w;
        i += 1;
    }
    assert!(cx.abs().wlen == 1, "C16: spurious polls changed the waiting list");
    let p = step(&mut cx, 1, act(peer_k).tag(2).w(2).f(1).d(peer_d));
    let pc = class_of(peer_k);
    let moved = (p.code == R_OK && (pc == SENDERISH || pc == RECEIVERISH)) || (p.code == R_COUNT && p.tag > 0);
    let killed = (pc == CLOSER && p.code == R_OK) || pc == LASTDROP;
    if send_side && pc == RECEIVERISH {
        assert!(moved, "C06/C14: receive found nothing although a send future was pending");
        assert!(!T::TAGGED || cx.order[0] == if prefilled { 3 } else { 1 }, "C02: receive did not obtain the oldest value");
    }
    if !send_side && pc == SENDERISH {
        assert!(p.code == R_OK, "C08/C14: send refused although a receive future was pending");
    }
    if moved || killed {
        assert!(
            waker::wakes(last_w as usize) >= 1,
            "C16/C06: the most recently supplied waker was not woken on completion"
        );
    }
    let w2 = pick_waker();
    let r = step(&mut cx, 0, act(poll).w(w2));
    if moved && ((send_side && pc == RECEIVERISH) || (!send_side && pc == SENDERISH)) {
        if send_side {
            assert!(r.code == R_OK, "C06: pending send future not completed after a receiver took a value");
        } else {
            assert!(r.code == R_OK && (!T::TAGGED || r.tag == 2), "C06/C04: pending receive future did not yield the sent value");
        }
    } else if killed {
        assert!(is_err(r.code), "C10/C11: pending future not released with an error by close/disconnect");
        if send_side && T::DROPPY && T::TAGGED {
            assert!(drops(1) == 1, "C05: failed send future did not drop its value exactly once");
        }
    } else {
        assert!(r.code == R_PENDING, "C16: future completed without a real completion");
    }
    kani::cover!(r.code == R_OK, "future completed");
    kani::cover!(is_err(r.code), "future released with error");
    if pc == CLOSER && p.code == R_OK && T::DROPPY && T::TAGGED && prefilled {
        assert!(drops(3) == 1, "C10: buffered value not destroyed by the time close returned");
    }
    cx.sf[0] = None;
    cx.rf[0] = None;
    cx.sf[1] = None;
    cx.rf[1] = None;
    epilogue(&mut cx, 3);
    if send_side && r.code != R_OK {
        assert!(cx.got[1] == 0, "C01: value of a failed/cancelled send was delivered");
    }
}

/// polling a completed (non-stream) future again must panic (should_panic harness)
pub fn repoll_done<T: Payload + 'static>(send_side: bool) {
    let mut cx = Ctx::<T>::new(Some(1));
    cx.install();
    if send_side {
        let r = step(&mut cx, 0, act(A_ASEND_START).tag(1).w(0));
        assert!(r.code == R_OK);
        let _ = step(&mut cx, 0, act(A_ASEND_POLL).w(0));
    } else {
        let _ = step(&mut cx, 0, act(A_TRY_SEND).tag(1));
        let r = step(&mut cx, 0, act(A_ARECV_START).w(0));
        assert!(r.code == R_OK);
        let _ = step(&mut cx, 0, act(A_ARECV_POLL).w(0));
    }
    // not reached: the second poll panics
    core::mem::forget(cx);
}

/// Family D: drop of a future at each stage of its life.
/// stage: 0 never polled, 1 pending and listed, 2 pending but claimed by a peer that
/// finishes (fin = 0 hand-off, 1 terminate) at ABW site `site` while Drop waits,
/// 3 completed by a peer but never re-polled, 4 completed and observed Ready,
/// 5 as 2, but the channel is closed from the other side after the claim and before the drop.
pub fn future_drop<T: Payload + 'static>(cap: usize, send_side: bool, stage: u8, site: u16, fin: u8, nth: u8) {
    sym_env(0, 0, 0);
    let mut cx = Ctx::<T>::new(Some(cap));
    cx.install();
    let prefilled = if send_side { make_full(&mut cx, cap) } else { false };
    let (new, start, poll, dropk) = if send_side {
        (A_ASEND_NEW, A_ASEND_START, A_ASEND_POLL, A_ASEND_DROP)
    } else {
        (A_ARECV_NEW, A_ARECV_START, A_ARECV_POLL, A_ARECV_DROP)
    };
    let mut delivered_to_future = false;
    let mut sender_should_deliver = false;
    if stage == 0 {
        let _ = step(&mut cx, 0, act(new).tag(1));
    } else {
        let r = step(&mut cx, 0, act(start).tag(1).w(0));
        assert!(r.code == R_PENDING);
    }
    // a second waiter behind the first one keeps its place
    let second = stage == 1;
    if second {
        let r = step(&mut cx, 2, act(start).tag(2).w(1).f(1));
        assert!(r.code == R_PENDING);
    }
    let claimed = stage == 2 || stage == 5;
    if claimed {
        let c = step(&mut cx, 1, act(if send_side { A_CLAIM_SENDER } else { A_CLAIM_RECEIVER }));
        assert!(c.code == R_OK);
        if stage == 5 {
            let cl = step(&mut cx, 1, act(if send_side { A_CLOSE_R } else { A_CLOSE_S }));
            assert!(cl.code == R_OK);
        }
        let fin_act = if fin == 1 {
            act(A_FINISH_TERMINATE)
        } else if send_side {
            sender_should_deliver = true;
            act(A_FINISH_RECV)
        } else {
            delivered_to_future = true;
            act(A_FINISH_SEND).tag(2)
        };
        cx.inject_nth(0, 0, site, nth, 1, fin_act);
    }
    if stage == 3 || stage == 4 {
        let p = step(&mut cx, 1, act(if send_side { A_TRY_RECV } else { A_TRY_SEND }).tag(2));
        assert!(p.code == R_OK);
        if send_side {
            sender_should_deliver = true;
        } else {
            delivered_to_future = true;
        }
        if stage == 4 {
            let r = step(&mut cx, 0, act(poll).w(0));
            assert!(r.code == R_OK);
            delivered_to_future = false; // consumed by the poll (recorded by take)
        }
    }
    let got2_before = cx.got[2];
    let _ = step(&mut cx, 0, act(dropk));
    if claimed {
        assert!(model::fired(0), "C15: Drop returned while a peer still owned the future's signal");
    }
    let a = cx.abs();
    assert!(a.wlen == if second { 1 } else { 0 }, "C15: dropped future left an entry in the waiting list");
    if send_side {
        if sender_should_deliver {
            assert!(cx.got[1] == 1 || a.qlen > 0, "C15: claimed value was not delivered");
        } else if T::DROPPY {
            assert!(drops(1) == 1 && cx.got[1] == 0, "C15: cancelled send future did not drop its value exactly once");
        }
    } else {
        if delivered_to_future && T::DROPPY {
            assert!(drops(2) == 1, "C15: value consumed by a dropped receive future was not dropped exactly once");
            assert!(cx.got[2] == got2_before);
        }
    }
    if second {
        // the waiter behind keeps working: a peer completes it
        let p = step(&mut cx, 1, act(if send_side { A_TRY_RECV } else { A_TRY_SEND }).tag(4));
        assert!(p.code == R_OK, "C15: waiter behind a dropped future lost its place");
        let r = step(&mut cx, 2, act(poll).w(1).f(1));
        assert!(r.code == R_OK, "C15: waiter behind a dropped future was not completed");
        if send_side {
            assert!(cx.order[0] == if prefilled { 3 } else { 2 });
        } else {
            assert!(r.tag == 4);
        }
    } else if !prefilled {
        // nothing may be delivered into the dropped future later
        let p = step(&mut cx, 1, act(if send_side { A_TRY_RECV } else { A_TRY_SEND }).tag(4));
        if stage == 5 {
            assert!(p.code == R_CLOSED, "C10: operation begun after close did not fail with Closed");
        } else if cap == 0 {
            assert!(p.code == R_FALSE, "C15: a later operation was delivered into a dropped future");
        }
    }
    cx.sf[1] = None;
    cx.rf[1] = None;
    epilogue(&mut cx, 4);
}

/// Family S: split-phase peer around a blocked sync operation.  The peer claims the
/// waiter under the lock at site `s1` and completes (fin 0 = hand-off, 1 = terminate)
/// at the later site `s2`; for timed operations the deadline passes in between
/// (clock script), so the waiter runs its time-out / cancel path against a claimed entry.
pub fn split<T: Payload + 'static>(cap: usize, outer_k: u8, s1: u16, s2: u16, fin: u8, clock: u8, spur: u8) {
    let d = sym_env(spur, clock, 1);
    let mut cx = Ctx::<T>::new(Some(cap));
    cx.install();
    let outer_sends = class_of(outer_k) == SENDERISH;
    let prefilled = if outer_sends { make_full(&mut cx, cap) } else { false };
    // with a pre-filled buffer the claimer first takes the buffered value like a real receive would
    cx.inject(0, 0, s1, 1, act(if outer_sends { A_CLAIM_SENDER } else { A_CLAIM_RECEIVER }));
    let fin_act = if fin == 1 {
        act(A_FINISH_TERMINATE)
    } else if outer_sends {
        act(A_FINISH_RECV)
    } else {
        act(A_FINISH_SEND).tag(2)
    };
    cx.inject(1, 0, s2, 1, fin_act);
    let r = unsafe { exec(&mut cx, act(outer_k).tag(1).d(d)) };
    assert!(model::fired(0) && cx.res[0].code == R_OK, "harness: claim did not happen");
    assert!(model::fired(1), "C07/C13: waiter returned while a peer still owned its signal");
    if fin == 1 {
        assert!(is_err(r.code), "C10/C11: terminated waiter did not report an error");
        if outer_sends && T::DROPPY {
            assert!(drops(1) == 1, "C05: terminated send did not drop its value exactly once");
        }
        if outer_k == A_SEND_OPT_TIMEOUT {
            assert!(cx.opt_back != 0, "C05/C13: option variant reported failure but did not hand the value back");
        }
    } else if outer_sends {
        assert!(r.code == R_OK, "C13/C06: send claimed by a receiver did not report success");
        assert!(cx.got[1] == 1, "C01: claimed value not delivered exactly once");
    } else {
        assert!(r.code == R_OK && r.tag == 2, "C13/C06: receive claimed by a sender did not return the value");
    }
    assert!(r.code != R_TIMEOUT, "C13: timeout reported although a peer had claimed the operation");
    kani::cover!(r.code == R_OK, "completed");
    let _ = prefilled;
    epilogue(&mut cx, 3);
}

// ---------------------------------------------------------------------------
// Family Q: single-threaded call sequences against the reference model
// ---------------------------------------------------------------------------
use super::spec::{self, Spec};

fn live_s<T: Payload + 'static>(cx: &Ctx<T>) -> usize {
    let mut n = 0;
    let mut i = 0;
    while i < NH {
        if cx.s[i].is_some() {
            n += 1;
        }
        i += 1;
    }
    n
}
fn live_r<T: Payload + 'static>(cx: &Ctx<T>) -> usize {
    let mut n = 0;
    let mut i = 0;
    while i < NH {
        if cx.r[i].is_some() {
            n += 1;
        }
        i += 1;
    }
    n
}

/// compare every observer with the model
fn observe<T: Payload + 'static>(cx: &Ctx<T>, sp: &Spec) {
    let bounded = sp.cap != usize::MAX;
    if let Some(s) = cx.s[0].as_ref() {
        assert!(s.len() == sp.blen, "C18: len() differs from the reference model");
        assert!(s.is_empty() == (sp.blen == 0), "C18: is_empty()");
        assert!(s.is_full() == (sp.cap == sp.blen), "C18: is_full()");
        assert!(s.capacity() == sp.cap, "C18: capacity()");
        assert!(s.is_bounded() == bounded, "C18: is_bounded()");
        assert!(s.sender_count() == sp.sc, "C12: sender_count() differs from the number of live sender handles");
        assert!(s.receiver_count() == sp.rc, "C12: receiver_count() differs from the number of live receiver handles");
        assert!(s.is_closed() == sp.closed(), "C10: is_closed()");
        assert!(s.is_disconnected() == (sp.rc == 0), "C11: Sender::is_disconnected()");
        assert!(s.len() <= sp.cap, "C08: reported length exceeds capacity");
    }
    if let Some(r) = cx.r[0].as_ref() {
        assert!(r.len() == sp.blen, "C18: len() differs from the reference model");
        assert!(r.is_full() == (sp.cap == sp.blen), "C18: is_full()");
        assert!(r.sender_count() == sp.sc, "C12: sender_count() differs from the number of live sender handles");
        assert!(r.receiver_count() == sp.rc, "C12: receiver_count() differs from the number of live receiver handles");
        assert!(r.is_closed() == sp.closed(), "C10: is_closed()");
        assert!(r.is_disconnected() == (sp.sc == 0), "C11: Receiver::is_disconnected()");
        assert!(r.is_terminated() == (sp.sc == 0 && sp.blen == 0), "C11: is_terminated()");
    }
}


fn seq_step<T: Payload + 'static>(cx: &mut Ctx<T>, sp: &mut Spec, k: u8, i: usize, f: u8, w: u8, d: u8) {
    let mut a = act(k).tag((i + 1) as u8).f(f).w(w).d(0);
    // ---- preconditions: what a single thread may legally call ----
    let ls = live_s(cx);
    let lr = live_r(cx);
    let sf_live = cx.sf[0].is_some() || cx.sf[1].is_some() || cx.sf[2].is_some();
    let rf_live = cx.rf[0].is_some() || cx.rf[1].is_some() || cx.rf[2].is_some() || cx.stream.is_some();
    match k {
        A_SEND => kani::assume(ls > 0 && !sp.send_would_wait()),
        A_RECV => kani::assume(lr > 0 && !sp.recv_would_wait()),
        A_TRY_SEND | A_TRY_SEND_OPT | A_TRY_SEND_RT | A_TRY_SEND_OPT_RT | A_SEND_TIMEOUT
        | A_SEND_OPT_TIMEOUT | A_CLOSE_S | A_CONVERT_S => kani::assume(ls > 0 && (k != A_CONVERT_S || !sf_live)),
        A_TRY_RECV | A_TRY_RECV_RT | A_RECV_TIMEOUT | A_DRAIN | A_CLOSE_R | A_CONVERT_R => {
            kani::assume(lr > 0 && (k != A_CONVERT_R || !rf_live))
        }
        A_ROT_W | A_ROT_Q => a.d = d,
        A_CLONE_S => {
            kani::assume(ls > 0 && ls < NH);
            a.d = d;
        }
        A_CLONE_R => {
            kani::assume(lr > 0 && lr < NH);
            a.d = d;
        }
        A_DROP_S => {
            // handles are dropped from the highest index; handle 0 lends itself to futures
            kani::assume(ls > 0 && (ls > 1 || !sf_live));
            a.h = (ls - 1) as u8;
            a.d = d;
        }
        A_DROP_R => {
            kani::assume(lr > 0 && (lr > 1 || !rf_live));
            a.h = (lr - 1) as u8;
            a.d = d;
        }
        A_ASEND_START => kani::assume(ls > 0 && cx.sf[f as usize].is_none()),
        A_ASEND_POLL => kani::assume(cx.sf[f as usize].is_some() && sp.sf[f as usize].st != spec::F_DONE),
        A_ASEND_DROP => kani::assume(cx.sf[f as usize].is_some()),
        A_ARECV_START => kani::assume(lr > 0 && cx.rf[f as usize].is_none()),
        A_ARECV_POLL => kani::assume(cx.rf[f as usize].is_some() && sp.rf[f as usize].st != spec::F_DONE),
        A_ARECV_DROP => kani::assume(cx.rf[f as usize].is_some()),
        A_STREAM_START => kani::assume(lr > 0 && cx.stream.is_none()),
        A_STREAM_POLL | A_STREAM_DROP => kani::assume(cx.stream.is_some()),
        _ => {}
    }
    // the model must stay inside its fixed arrays (part of the bound)
    kani::assume(sp.blen < spec::BUF_MAX && sp.wlen < spec::WQ_MAX - 1);
    let exp = sp.apply(a);
    let got = step(cx, 0, a);
    assert!(got.code == exp.code, "C18: call result differs from the reference model");
    if T::TAGGED && (exp.code == R_OK && class_of(k) == RECEIVERISH || k == A_ARECV_POLL || k == A_STREAM_POLL || k == A_STREAM_START) {
        assert!(got.tag == exp.tag, "C18/C02: received value differs from the reference model");
    }
    if exp.code == R_COUNT {
        assert!(got.tag == exp.tag && got.aux == exp.aux, "C19: drain_into count differs from the reference model");
    }
    if k == A_TRY_SEND_OPT || k == A_TRY_SEND_OPT_RT || k == A_SEND_OPT_TIMEOUT {
        assert!((cx.opt_back == 0) == (got.code == R_OK), "C05: Option handed back iff the call failed");
    }
}

fn seq_post<T: Payload + 'static>(cx: &mut Ctx<T>, sp: &mut Spec, observers: bool) {
    // ---- abstraction function ----
    let ab = cx.abs();
    assert!(ab.qlen == sp.blen, "C18: buffer length differs from the reference model");
    assert!(ab.wlen == sp.wlen, "C18: waiting list differs from the reference model");
    if sp.wlen > 0 {
        assert!(ab.recv_blocking == !sp.wq[0].is_send, "C18/C03: direction flag of the waiting list disagrees with the operations waiting in it");
    }
    assert!(ab.send_count == sp.sc && ab.recv_count == sp.rc, "C12: handle counts differ from the live-handle ledger");
    assert!(sp.sc == 0 && sp.rc == 0 || (ab.send_count as usize == live_s(cx) && ab.recv_count as usize == live_r(cx)),
        "C12: count differs from the number of live handles");
    assert!(ab.qlen <= ab.capacity, "C08: buffer longer than capacity");
    assert!(ab.strong == live_s(cx) + live_r(cx) + 1,
        "C09/C12: owners of the channel state differ from the number of live handles (a clone or conversion created or leaked one)");
    if observers {
        observe(cx, sp);
    }
    let mut wk = 0;
    while wk < 2 {
        assert!(waker::wakes(wk) >= sp.wakes[wk], "C16/C06: the most recently supplied waker was not woken");
        wk += 1;
    }
}

/// One concrete sequence of calls (operation kinds, future indices, waker ids and clone variants are
/// fixed per query; payload bits and reported parallelism are solver variables).  Every result and the
/// abstraction of the real state are compared with the reference model after every call.
/// A symbolic choice of the operation kind was measured to be out of reach: merging the heap states of
/// 9 alternative operations takes the solver > 280 s for a single step.
/// observers: 0 = never, 1 = every public observer after every call, 2 = after the last call only
pub fn seqc<T: Payload + 'static>(cap: Option<usize>, ops: &[(u8, u8, u8, u8)], observers: u8) {
    unsafe {
        model::CLOCK_FROZEN = true;
        model::PAR = if kani::any() { 1 } else { 2 };
        model::STUCK_IS_BUG = true;
    }
    let mut cx = Ctx::<T>::new(cap);
    cx.install();
    let mut sp = Spec::new(cap);
    let mut i = 0;
    while i < ops.len() {
        let (k, f, w, d) = ops[i];
        seq_step(&mut cx, &mut sp, k, i, f, w, d);
        seq_post(&mut cx, &mut sp, observers == 1 || (observers == 2 && i + 1 == ops.len()));
        i += 1;
    }
    assert!(cx.order_len == sp.order_len, "C01: number of values received differs from the reference model");
    let mut j = 0;
    while j < ORDER_MAX {
        if T::TAGGED && j < sp.order_len {
            assert!(cx.order[j] == sp.order[j], "C02: order of received values differs from the reference model");
        }
        j += 1;
    }
    kani::cover!(true, "sequence is legal");
    cx.sf[0] = None;
    cx.sf[1] = None;
    cx.sf[2] = None;
    cx.rf[0] = None;
    cx.rf[1] = None;
    cx.rf[2] = None;
    cx.stream = None;
    // values still owned by the model's buffer are destroyed with the channel
    epilogue(&mut cx, ops.len() as u8);
}

// ---------------------------------------------------------------------------
// Family P: peers acting inside a poll of a pending future; stream script
// ---------------------------------------------------------------------------

/// A pending future is polled again (same waker: diff = false, other waker: diff = true)
/// while a peer completes / closes at hook site `site` inside that poll.
pub fn poll_site<T: Payload + 'static>(cap: usize, send_side: bool, site: u16, peer_k: u8, diff: bool) {
    sym_env(0, 0, 1);
    let mut cx = Ctx::<T>::new(Some(cap));
    cx.install();
    let prefilled = if send_side { make_full(&mut cx, cap) } else { false };
    let (start, poll) = if send_side {
        (A_ASEND_START, A_ASEND_POLL)
    } else {
        (A_ARECV_START, A_ARECV_POLL)
    };
    let r0 = step(&mut cx, 0, act(start).tag(1).w(0));
    assert!(r0.code == R_PENDING);
    cx.inject(0, 0, site, 1, act(peer_k).tag(2));
    let w = if diff { 1 } else { 0 };
    let r1 = step(&mut cx, 0, act(poll).w(w));
    let fired = model::fired(0);
    let p = cx.res[0];
    let pc = class_of(peer_k);
    let completed = fired && (p.code == R_OK || (p.code == R_COUNT && p.tag > 0));
    kani::cover!(fired, "peer acted inside the poll");
    kani::cover!(unsafe { model::SKIPPED_LOCKED } > 0, "site is inside the critical section");
    if !fired {
        assert!(r1.code == R_PENDING, "C16: spurious poll of a pending future did not stay Pending");
    }
    if completed {
        // either this poll already reports the completion, or the waker supplied by it is woken
        assert!(
            r1.code != R_PENDING || waker::wakes(w as usize) >= 1,
            "C16/C07: completion raced with waker replacement: the most recently supplied waker is never woken"
        );
        if r1.code != R_PENDING {
            if pc == CLOSER {
                assert!(is_err(r1.code), "C10: pending future not released with an error by close");
            } else {
                assert!(r1.code == R_OK, "C06: pending future reported an error although the peer completed it");
            }
        }
    }
    // The continuation (second poll, drop, teardown) is deliberately not explored here: a completing
    // peer nested at this point leaves CBMC with a non-constant-folded future state and the formula
    // grows 10x (measured 640k steps).  Completion after a nested peer is covered by families A and D.
    let _ = (prefilled, pc);
    core::mem::forget(cx);
}

/// split-phase peer around a re-poll: the peer has claimed the pending future (popped it under
/// the lock); the future is polled with the same / another waker; the peer finishes at `site`.
pub fn poll_split<T: Payload + 'static>(send_side: bool, diff: bool, site: u16, fin: u8, nth: u8) {
    sym_env(0, 0, 1);
    let mut cx = Ctx::<T>::new(Some(0));
    cx.install();
    let (start, poll) = if send_side {
        (A_ASEND_START, A_ASEND_POLL)
    } else {
        (A_ARECV_START, A_ARECV_POLL)
    };
    let r0 = step(&mut cx, 0, act(start).tag(1).w(0));
    assert!(r0.code == R_PENDING);
    let c = step(&mut cx, 1, act(if send_side { A_CLAIM_SENDER } else { A_CLAIM_RECEIVER }));
    assert!(c.code == R_OK);
    let fin_act = if fin == 1 {
        act(A_FINISH_TERMINATE)
    } else if send_side {
        act(A_FINISH_RECV)
    } else {
        act(A_FINISH_SEND).tag(2)
    };
    let w = if diff { 1 } else { 0 };
    if diff {
        // the poll must wait for the owner inside async_blocking_wait: the peer finishes there
        cx.inject_nth(0, 0, site, nth, 1, fin_act);
        let r = step(&mut cx, 0, act(poll).w(w));
        assert!(model::fired(0), "C07: poll returned while a peer still owned the future's signal");
        if fin == 1 {
            assert!(is_err(r.code), "C10/C11: terminated future did not report an error");
        } else if send_side {
            assert!(r.code == R_OK && cx.got[1] == 1, "C06/C01: claimed send future did not complete with success");
        } else {
            assert!(r.code == R_OK && r.tag == 2, "C06/C04: claimed receive future did not return the value");
        }
    } else {
        // same waker: the poll stays pending, the owner finishes later and wakes that waker
        let r = step(&mut cx, 0, act(poll).w(w));
        assert!(r.code == R_PENDING, "C16: future completed without a real completion");
        let _ = step(&mut cx, 1, fin_act);
        assert!(waker::wakes(0) >= 1, "C06: registered waker not woken by the completing peer");
        let r = step(&mut cx, 0, act(poll).w(w));
        if fin == 1 {
            assert!(is_err(r.code), "C10/C11: terminated future did not report an error");
        } else {
            assert!(r.code == R_OK, "C06: future not completed after the peer finished");
        }
    }
    cx.sf[0] = None;
    cx.rf[0] = None;
    epilogue(&mut cx, 3);
}

/// the receive stream over three waits with spurious polls in the second one, then the end
pub fn stream_script<T: Payload + 'static>(cap: usize, spurious: u8) {
    sym_env(0, 0, 1);
    let mut cx = Ctx::<T>::new(Some(cap));
    cx.install();
    let r = step(&mut cx, 0, act(A_STREAM_START).w(0));
    assert!(r.code == R_PENDING);
    let p = step(&mut cx, 1, act(A_TRY_SEND).tag(1));
    assert!(p.code == R_OK);
    assert!(waker::wakes(0) >= 1, "C06: stream waker not woken");
    let r = step(&mut cx, 0, act(A_STREAM_POLL).w(0));
    assert!(r.code == R_OK && r.tag == 1, "C16: stream did not yield the first value");
    // second wait
    let mut last_w = pick_waker();
    let r = step(&mut cx, 0, act(A_STREAM_POLL).w(last_w));
    assert!(r.code == R_PENDING, "C16: stream yielded a value that was not sent");
    let mut i = 0;
    while i < spurious {
        last_w = pick_waker();
        let r = step(&mut cx, 0, act(A_STREAM_POLL).w(last_w));
        assert!(r.code == R_PENDING, "C16: spurious poll of a waiting stream yielded a value (stale / duplicated item)");
        i += 1;
    }
    let before = waker::wakes(last_w as usize);
    let p = step(&mut cx, 1, act(A_TRY_SEND).tag(2));
    assert!(p.code == R_OK);
    assert!(waker::wakes(last_w as usize) > before, "C16/C06: the most recently supplied stream waker was not woken");
    let r = step(&mut cx, 0, act(A_STREAM_POLL).w(last_w));
    assert!(r.code == R_OK && r.tag == 2, "C16: stream did not yield the second value in order");
    // third wait ends with the last sender going away
    let r = step(&mut cx, 0, act(A_STREAM_POLL).w(0));
    assert!(r.code == R_PENDING);
    let _ = step(&mut cx, 1, act(A_DROP_S));
    let r = step(&mut cx, 0, act(A_STREAM_POLL).w(0));
    assert!(r.code == R_END, "C16: stream did not end after the last sender was dropped");
    let r = step(&mut cx, 0, act(A_STREAM_POLL).w(1));
    assert!(r.code == R_END, "C16: ended stream did not keep reporting the end");
    cx.stream = None;
    epilogue(&mut cx, 3);
}

// ---------------------------------------------------------------------------
// Family U: payload encoding units (pointer.rs) for every payload class
// ---------------------------------------------------------------------------
use crate::pointer::KanalPtr;
use core::mem::{size_of, MaybeUninit};

pub fn ptr_unit<T: Payload + 'static>() {
    let big = size_of::<T>() > size_of::<*mut T>();
    // (i) read out of a blocked sender's slot
    let v = T::make(1);
    let b = v.bits();
    let mut slot = MaybeUninit::new(v);
    let p = KanalPtr::new_from(slot.as_mut_ptr());
    let r = unsafe { p.read() };
    assert!(same_bits(&r.bits(), &b), "C04: value read out of a sender slot differs from the value stored");
    drop(r);
    // (ii) written into a blocked receiver's slot, read back the way recv()/ReceiveFuture do
    let v = T::make(2);
    let b = v.bits();
    let mut ret = MaybeUninit::<T>::uninit();
    let p = KanalPtr::new_write_address_ptr(ret.as_mut_ptr());
    unsafe { p.write(v) };
    let r = if big { unsafe { ret.assume_init() } } else { unsafe { p.read() } };
    assert!(same_bits(&r.bits(), &b), "C04: value written into a receiver slot differs when read back");
    drop(r);
    // (iii) owned inline encoding used by SendFuture for small types
    if !big {
        let v = T::make(3);
        let b = v.bits();
        let p = KanalPtr::new_owned(v);
        let r = unsafe { p.read() };
        assert!(same_bits(&r.bits(), &b), "C04: inline-encoded value differs when read back");
        drop(r);
    }
    // (iv) copy path
    let v = T::make(4);
    let b = v.bits();
    let mut ret = MaybeUninit::<T>::uninit();
    let p = KanalPtr::new_write_address_ptr(ret.as_mut_ptr());
    unsafe { p.copy(&v as *const T) };
    core::mem::forget(v);
    let r = if big { unsafe { ret.assume_init() } } else { unsafe { p.read() } };
    assert!(same_bits(&r.bits(), &b), "C04: copied value differs when read back");
    drop(r);
    if T::DROPPY && T::TAGGED {
        assert!(drops(1) == 1 && drops(2) == 1 && drops(4) == 1, "C05: encoding round trip duplicated or lost a value");
    }
    if T::DROPPY && !T::TAGGED {
        assert!(drops(0) == unsafe { ZD_MADE }, "C01/C05: encoding round trip duplicated or lost a zero-sized droppable value");
    }
}

// ---------------------------------------------------------------------------
// Family N: drain_into on composed states; realtime variants with the lock held
// ---------------------------------------------------------------------------

/// nbuf buffered values (tags 3,4), n_async pending send futures (tags 1,2), optionally a parked
/// sync sender (tag 5, the outer frame: drain runs as its peer at PARK); vector with `prior`
/// elements (tags 6,7,8) and `spare` extra capacity.
pub fn drain_state<T: Payload + 'static>(cap: usize, nbuf: usize, n_async: usize, sync_outer: bool, prior: usize, spare: usize) {
    sym_env(0, 0, 1);
    let mut cx = Ctx::<T>::new(Some(cap));
    cx.install();
    let mut i = 0;
    while i < nbuf {
        let r = step(&mut cx, 0, act(A_TRY_SEND).tag(3 + i as u8));
        assert!(r.code == R_OK);
        i += 1;
    }
    let mut i = 0;
    while i < n_async {
        let r = step(&mut cx, 2, act(A_ASEND_START).tag(1 + i as u8).f(i as u8).w(i as u8));
        assert!(r.code == R_PENDING);
        i += 1;
    }
    if prior + spare > 0 {
        // (assigning a fresh *empty* Vec over the field trips a Kani constant-codegen artefact, see DESIGN 9)
        cx.vec = Vec::with_capacity(prior + spare);
    }
    let mut i = 0;
    while i < prior {
        cx.vec.push(T::make(6 + i as u8));
        i += 1;
    }
    let expected = nbuf + n_async + if sync_outer { 1 } else { 0 };
    let d;
    if sync_outer {
        cx.inject(0, 0, SITE_PARK, 1, act(A_DRAIN));
        let r = unsafe { exec(&mut cx, act(A_SEND).tag(5)) };
        assert!(r.code == R_OK, "C19: parked sender drained by drain_into was not released with success");
        assert!(model::fired(0));
        d = cx.res[0];
    } else {
        d = step(&mut cx, 1, act(A_DRAIN));
    }
    assert!(d.code == R_COUNT, "C19: drain_into failed on an open channel");
    assert!(d.aux as usize == expected, "C19: returned count differs from the number of available values");
    assert!(d.tag as usize == expected, "C19: number of appended values differs from the number available");
    // order: buffer first, then blocked senders oldest first
    let mut k = 0;
    let mut i = 0;
    while i < nbuf {
        assert!(cx.order[k] == 3 + i as u8, "C19/C02: buffered values not drained first, in order");
        k += 1;
        i += 1;
    }
    let mut i = 0;
    while i < n_async {
        assert!(cx.order[k] == 1 + i as u8, "C19/C02: blocked senders not drained oldest first");
        k += 1;
        i += 1;
    }
    if sync_outer {
        assert!(cx.order[k] == 5, "C19/C02: parked sender's value not drained last");
    }
    // previous contents untouched
    assert!(cx.vec.len() == prior, "C19: vector's previous contents changed");
    let mut i = 0;
    while i < prior {
        assert!(cx.vec[i].tag() == 6 + i as u8, "C19: vector's previous contents changed");
        i += 1;
    }
    // every drained sender completes with success and was woken
    let mut i = 0;
    while i < n_async {
        assert!(waker::wakes(i) >= 1, "C19/C06: drained pending sender was not woken");
        let r = step(&mut cx, 2, act(A_ASEND_POLL).f(i as u8).w(i as u8));
        assert!(r.code == R_OK, "C19: drained pending sender did not complete with success");
        i += 1;
    }
    let a = cx.abs();
    assert!(a.qlen == 0 && a.wlen == 0, "C19: drain_into left values behind");
    cx.sf[0] = None;
    cx.sf[1] = None;
    // the prior elements are the harness's own
    while let Some(v) = cx.vec.pop() {
        drop(v);
    }
    epilogue(&mut cx, 5);
}

/// drain on a closed channel / with blocked receivers takes nothing
pub fn drain_nothing<T: Payload + 'static>(closed: bool) {
    sym_env(0, 0, 1);
    let mut cx = Ctx::<T>::new(Some(1));
    cx.install();
    if closed {
        let _ = step(&mut cx, 0, act(A_TRY_SEND).tag(3));
        let _ = step(&mut cx, 0, act(A_CLOSE_S));
        let d = step(&mut cx, 1, act(A_DRAIN));
        assert!(d.code == R_CLOSED, "C19: drain_into on a closed channel did not fail");
        assert!(cx.vec.len() == 0 && cx.got[3] == 0, "C19: drain_into on a closed channel took a value");
    } else {
        let r = step(&mut cx, 2, act(A_ARECV_START).w(0));
        assert!(r.code == R_PENDING);
        let d = step(&mut cx, 1, act(A_DRAIN));
        assert!(d.code == R_COUNT && d.aux == 0 && d.tag == 0, "C19: drain_into with only blocked receivers reported values");
        assert!(cx.abs().wlen == 1, "C19: drain_into disturbed blocked receivers");
        cx.rf[0] = None;
    }
    epilogue(&mut cx, 3);
}

/// *_realtime variants while another thread is frozen inside its critical section
pub fn rt_locked<T: Payload + 'static>(cap: usize, nbuf: usize, waiter: u8) {
    sym_env(0, 0, 0);
    let mut cx = Ctx::<T>::new(Some(cap));
    cx.install();
    let mut i = 0;
    while i < nbuf {
        let r = step(&mut cx, 0, act(A_TRY_SEND).tag(3 + i as u8));
        assert!(r.code == R_OK);
        i += 1;
    }
    if waiter == 1 {
        let r = step(&mut cx, 2, act(A_ASEND_START).tag(1).w(0));
        kani::assume(r.code == R_PENDING);
    } else if waiter == 2 {
        let r = step(&mut cx, 2, act(A_ARECV_START).w(0));
        kani::assume(r.code == R_PENDING);
    }
    let probe = cx.probe.as_ref().unwrap().clone();
    let g = crate::internal::acquire_internal(&probe);
    let before = (g.queue.len(), g.wait_list.len(), g.recv_blocking, g.send_count, g.recv_count);
    let which: u8 = kani::any();
    kani::assume(which < 3);
    let r = match which {
        0 => step(&mut cx, 1, act(A_TRY_SEND_RT).tag(2)),
        1 => step(&mut cx, 1, act(A_TRY_SEND_OPT_RT).tag(2)),
        _ => step(&mut cx, 1, act(A_TRY_RECV_RT)),
    };
    assert!(r.code == R_FALSE, "C14: realtime variant did not give up at once while the internal lock was held");
    if which == 1 {
        assert!(cx.opt_back != 0, "C05/C14: option variant reported 'not done' but took the value");
    }
    let after = (g.queue.len(), g.wait_list.len(), g.recv_blocking, g.send_count, g.recv_count);
    assert!(before == after, "C14: refused realtime operation changed the channel");
    drop(g);
    drop(probe);
    assert!(cx.got[1] == 0 && cx.got[3] == 0 && cx.got[4] == 0);
    cx.sf[0] = None;
    cx.rf[0] = None;
    epilogue(&mut cx, 4);
}

// ---------------------------------------------------------------------------
// Family W: a third party acting at the start of a hand-off (Signal::wake entry)
// ---------------------------------------------------------------------------

/// The channel is full (cap >= 1: buffer full; cap 0: nothing) with one pending send future behind it
/// (recv_side) or empty with one pending receive future (send side).  Thread 0 runs a non-waiting
/// operation that serves that waiter; a third party (thread 1: try_send / try_recv / observers) is
/// scheduled at the entry of the hand-off.  If that point is inside the critical section the site is
/// skipped (nothing can run there); if it is outside, the third party must see a state an atomic
/// channel can be in: full before and after, so a try_send is refused; the observers report len == cap.
pub fn wake_window<T: Payload + 'static>(cap: usize, recv_side: bool, outer_k: u8, peer_k: u8) {
    sym_env(0, 0, 1);
    unsafe {
        model::CLOCK_FROZEN = true;
    }
    let mut cx = Ctx::<T>::new(Some(cap));
    cx.install();
    if recv_side {
        make_full(&mut cx, cap);
        let r = step(&mut cx, 2, act(A_ASEND_START).tag(1).w(0));
        assert!(r.code == R_PENDING);
    } else {
        let r = step(&mut cx, 2, act(A_ARECV_START).w(0));
        assert!(r.code == R_PENDING);
    }
    cx.inject(0, 0, SITE_WAKE_ENTRY, 1, act(peer_k).tag(2));
    let r = step(&mut cx, 0, act(outer_k).tag(5).w(1).f(1).d(0));
    let fired = model::fired(0);
    let p = cx.res[0];
    kani::cover!(fired, "third party ran during the hand-off");
    kani::cover!(unsafe { model::SKIPPED_LOCKED } > 0, "hand-off starts inside the critical section");
    assert!(r.code == R_OK || r.code == R_COUNT, "C06/C18: operation that serves a waiter did not succeed");
    if fired {
        match peer_k {
            A_TRY_SEND | A_TRY_SEND_OPT | A_TRY_SEND_RT => {
                if recv_side {
                    assert!(p.code == R_FALSE, "C03/C08: try_send succeeded on a channel that is full in every atomic state");
                }
            }
            A_TRY_RECV | A_TRY_RECV_RT => {
                if !recv_side {
                    assert!(p.code == R_FALSE, "C03: try_recv obtained a value although the only value was handed to the waiting receiver");
                }
            }
            A_OBSERVE => {
                if recv_side && outer_k != A_DRAIN {
                    assert!(p.tag as usize == cap,
                        "C03: observer saw a buffer length no atomic channel could have (half-applied receive)");
                }
            }
            _ => {}
        }
    }
    let a = cx.abs();
    assert!(a.qlen <= cap, "C08: buffer longer than capacity");
    if recv_side && outer_k != A_DRAIN {
        assert!(a.qlen == cap && a.wlen == 0, "C02/C06: blocked sender's value was not moved into the freed place");
        if T::TAGGED {
            assert!(cx.order[0] == if cap > 0 { 3 } else { 1 }, "C02: receive did not obtain the oldest value");
        }
    }
    cx.sf[0] = None;
    cx.rf[0] = None;
    cx.sf[1] = None;
    cx.rf[1] = None;
    cx.stream = None;
    epilogue(&mut cx, 5);
}
