#!/usr/bin/env python3
"""writes seeded/README.md from seeded/*/meta.json"""
import json, os, glob
HERE = os.path.dirname(os.path.dirname(os.path.abspath(__file__)))
rows = []
for d in sorted(glob.glob(os.path.join(HERE, "seeded", "C*"))):
    m = json.load(open(os.path.join(d, "meta.json")))
    diff = open(os.path.join(d, "patch.diff")).read()
    files = sorted(set(l[6:] for l in diff.splitlines() if l.startswith("+++ b/")))
    rows.append((os.path.basename(d), m["property"], ", ".join(files), m.get("needs_to_manifest", ""), m.get("detected_by", "(not run yet)")))
out = ["# Seeded defects", "",
       "Each directory holds a change to fereidani/kanal written by an independent sub-agent (given only the property text and a scratch",
       "worktree), `patch.diff`, the demonstration (`demo.rs`, placed at `tests/seeded_demo.rs`), the agent's `notes.md` and `meta.json`",
       "(what it needs to manifest, what I ran to confirm it, and which check reports it). Every change compiles, passes the 83 tests and",
       "the doctests, and its demonstration fails with the change and passes without it (re-run by me in a fresh worktree).", "",
       "To try one: `git -C /repo apply /verif/seeded/<directory>/patch.diff; cd /verif && ./check <property>; git -C /repo checkout -- .`", "",
       "| directory | property | files | needs | reported by |", "|---|---|---|---|---|"]
for r in rows:
    out.append("| %s | %s | %s | %s | %s |" % tuple(x.replace("|", "/").replace("\n", " ") for x in r))
open(os.path.join(HERE, "seeded", "README.md"), "w").write("\n".join(out) + "\n")
print("rows", len(rows))
