"""Engine M: bounded model checking of kanal's lock-free kernels from their MIR.

Each logical thread runs a script of kernel calls (real MIR, inlined) and ghost
events.  Global time is unrolled K steps; `sched[i]` (a z3 variable) picks the
thread that performs its next *visible* action (atomic access, park/unpark,
ghost event) together with the local computation up to the following visible
action (large-block encoding).  Per thread the control location is kept as a
set of guarded concrete locations (symbolic execution with state merging), so
no program counter has to be bit-blasted.

On top of the interleaving (SC) values a C11 happens-before monitor runs:
vector clocks per thread, a release clock per atomic location (release
sequences through RMWs, relaxed load + acquire fence), park/unpark
synchronisation; every non-atomic access (ghost events and the waker cell) is
checked for an unordered conflicting access.

Anything outside the supported MIR subset raises Unsupported -> INCONCLUSIVE.
"""
import re, time
import z3
import mir as M


class Unsupported(Exception):
    pass


WIDTH = {"u8": 8, "i8": 8, "u16": 16, "i16": 16, "u32": 32, "i32": 32, "u64": 64, "i64": 64, "usize": 64, "isize": 64}
ORD = {"Relaxed": 0, "Release": 1, "Acquire": 2, "AcqRel": 3, "SeqCst": 4}
NOOPS = ("yield_now_std", "backoff::yield_now", "yield_now", "spin_hint", "backoff::sleep", "sleep", "spin_wait")
CLK = 6  # bits of a vector-clock component


def bv(v, w):
    return z3.BitVecVal(v, w)


def is_z3(x):
    return isinstance(x, z3.ExprRef)


def is_val(e):
    return z3.is_bv_value(e) or z3.is_true(e) or z3.is_false(e)


def fold(e):
    """constant-fold only terms whose children are all literals.  z3.simplify on a term that reaches the
    history DAG rebuilds (duplicates) that DAG on every call: measured 2.4x growth per step."""
    if is_z3(e) and e.num_args() > 0 and all(is_val(c) for c in e.children()):
        return z3.simplify(e)
    return e


def mk_and(a, b):
    if z3.is_true(a):
        return b
    if z3.is_true(b):
        return a
    if z3.is_false(a) or z3.is_false(b):
        return z3.BoolVal(False)
    return z3.And(a, b)


def mk_not(a):
    if z3.is_true(a):
        return z3.BoolVal(False)
    if z3.is_false(a):
        return z3.BoolVal(True)
    return z3.Not(a)


def ite(c, a, b):
    """merge two values (z3 terms, ADT dicts, static refs)"""
    if a is b:
        return a
    if isinstance(a, dict) and isinstance(b, dict):
        return {k: ite(c, a.get(k), b.get(k)) for k in set(a) | set(b)}
    if is_z3(a) and is_z3(b):
        if a.eq(b):
            return a
        return z3.If(c, a, b)
    if a is None:
        return b
    if b is None:
        return a
    if a == b:
        return a
    return ("conflict", a, b)


class Scenario:
    """threads: list of scripts; script item:
         ('call', fn_suffix, {param: value}, dest_name|None)
         ('ghost', kind, loc)        kind in read|write|eol|acq|rel|assert_held
       shared: {name: initial z3 value}; atomics: set of names that are atomic locations
    """

    def __init__(self, name, threads, shared, nonatomic=(), K=24, note=""):
        self.name, self.threads, self.shared, self.nonatomic, self.K, self.note = name, threads, dict(shared), list(nonatomic), K, note


class Engine:
    def __init__(self, fns, consts, par=None):
        self.fns, self.consts = fns, consts
        self.encoded = set()
        self.par = par

    # ------------------------------------------------------------ helpers
    def fn(self, spec):
        """spec: 'file.rs::method' (optionally '|param0-type-regex') -> the unique MIR function of that name defined in
        an impl block (or at top level) of that source file; spans in the pretty names are ignored so that edits do not matter"""
        ptype = None
        if "|" in spec:
            spec, ptype = spec.split("|", 1)
        if ".rs::" in spec:
            fname, meth = spec.split("::", 1)
            mod = fname[:-3]
            pat = re.compile(r"^(?:%s::)?(?:<impl at src/%s:[^>]*>::)?%s$" % (re.escape(mod), re.escape(fname), re.escape(meth)))
            c = [f for name, fl in self.fns.items() for f in fl if pat.match(name) and ("src/" + fname in name or name.startswith(mod + "::") or "::" not in name)]
        else:
            c = M.find(self.fns, spec)
        if ptype:
            c = [f for f in c if f.params and re.search(ptype, f.params[0][1])]
        if len(c) != 1:
            raise Unsupported("function %s: %d candidates %s" % (spec, len(c), [f.name for f in c][:4]))
        self.encoded.add(c[0].name)
        return c[0]

    def const(self, txt):
        txt = txt.strip()
        m = re.match(r"(-?\d+)_(\w+)$", txt)
        if m:
            return bv(int(m.group(1)), WIDTH[m.group(2)])
        if txt == "true":
            return z3.BoolVal(True)
        if txt == "false":
            return z3.BoolVal(False)
        if txt == "()":
            return None
        # named constant
        name = txt
        val = M.const_value(self.consts, name)
        ty = None
        for cn, (t, _) in self.consts.items():
            if cn.split("::")[-1] == name.split("::")[-1]:
                ty = t
        if ty not in WIDTH:
            raise Unsupported("constant type " + str(ty))
        return bv(val, WIDTH[ty])


# --------------------------------------------------------------------------- symbolic state


class TState:
    """per-thread symbolic state at one global step"""

    def __init__(self):
        self.locs = {}  # location -> guard (z3 Bool)
        self.env = {}  # (frame_key, local) -> value
        self.vc = None  # vector clock: list of z3 BV
        self.facq = None  # pending acquire (relaxed loads before an acquire fence)
        self.token = None
        self.tokclk = None


class Run:
    def __init__(self, eng, sc):
        self.eng, self.sc = eng, sc
        self.T = len(sc.threads)
        self.K = sc.K
        self.sched = [z3.BitVec("sched_%d" % i, 4) for i in range(self.K)]
        self.constraints = []
        self.bad = {}  # kind -> list of z3 Bool (violation at some step)
        self.events = []  # (step, thread, guard, text) for trace decoding
        self.par = z3.BitVec("parallelism", 64)
        self.constraints.append(z3.UGE(self.par, 1))
        self.constraints.append(z3.ULE(self.par, 64))
        self.spurious = []
        self.nondet = []

    def add_bad(self, kind, cond):
        self.bad.setdefault(kind, []).append(cond)

    # ----- clocks
    def vc_zero(self):
        return [bv(0, CLK) for _ in range(self.T)]

    def vc_join(self, a, b):
        return [z3.If(z3.UGE(x, y), x, y) for x, y in zip(a, b)]

    def vc_leq_comp(self, c, u, vc):
        return z3.ULE(c, vc[u])

    # ----- main loop
    def build(self):
        sc, T = self.sc, self.T
        self.shared = dict(sc.shared)
        # release clocks of atomic locations and access epochs of non-atomic ones
        self.rel = {}
        self.wclk = {n: (bv(0, 4), bv(0, CLK)) for n in sc.nonatomic}  # (thread, clock) of the last write
        self.rclk = {n: [bv(0, CLK) for _ in range(T)] for n in sc.nonatomic}
        self.ts = []
        for t in range(T):
            st = TState()
            st.locs = {(0, ()): z3.BoolVal(True)}  # (script index, frames)
            st.vc = [bv(1 if u == t else 0, CLK) for u in range(T)]
            st.facq = self.vc_zero()
            st.token = z3.BoolVal(False)
            st.tokclk = self.vc_zero()
            self.ts.append(st)
        self.snaps = []
        for i in range(self.K):
            self.step(i)
            self.snaps.append(self.snapshot())
        return self

    def snapshot(self):
        return {"finished": [self.finished(t) for t in range(self.T)],
                "token": [st.token for st in self.ts],
                "parked": [self.at_park(t) for t in range(self.T)],
                "shared": dict(self.shared)}

    def at_park(self, t):
        g = []
        for loc, guard in self.ts[t].locs.items():
            if loc[0] >= len(self.sc.threads[t]) or not loc[1]:
                continue
            fn, bb, idx = loc[1][-1][0], loc[1][-1][1], loc[1][-1][2]
            stmts, term = fn.blocks[bb]
            if idx == len(stmts) and term and re.search(r"= park\(\)", term):
                g.append(guard)
        return z3.Or(g) if g else z3.BoolVal(False)

    def enabled(self, t):
        """guard: thread t can take a step now"""
        st = self.ts[t]
        g = []
        for loc, guard in st.locs.items():
            if loc[0] >= len(self.sc.threads[t]):
                continue  # finished
            blk = self.blocked(t, loc)
            g.append(z3.And(guard, z3.Not(blk)))
        return z3.Or(g) if g else z3.BoolVal(False)

    def blocked(self, t, loc):
        """location-specific blocking condition (parked without token; ghost acquire not yet possible)"""
        item = self.sc.threads[t][loc[0]]
        frames = loc[1]
        if not frames:
            if item[0] == "ghost" and item[1] == "acq":
                return z3.Not(self.shared[item[2]])
            if item[0] == "await":
                return z3.Not(self.shared[item[1]])
            return z3.BoolVal(False)
        fn, bb, idx = frames[-1][0], frames[-1][1], frames[-1][2]
        stmts, term = fn.blocks[bb]
        if idx == len(stmts) and term and re.search(r"= park\(\)", term):
            # park blocks unless a token is available or it returns spuriously (nondeterministic)
            return z3.Not(z3.Or(self.ts[t].token, self.fresh_bool("spur")))
        return z3.BoolVal(False)

    def fresh_bool(self, p):
        b = z3.Bool("%s_%d" % (p, len(self.nondet)))
        self.nondet.append(b)
        return b

    def step(self, i):
        sc, T = self.sc, self.T
        en = [self.enabled(t) for t in range(T)]
        any_en = z3.Or(en)
        # scheduler picks an enabled thread; if none is enabled the system stutters
        self.constraints.append(z3.ULT(self.sched[i], T))
        self.constraints.append(z3.Implies(any_en, z3.Or([z3.And(self.sched[i] == t, en[t]) for t in range(T)])))
        old_shared = dict(self.shared)
        old_rel = dict(self.rel)
        old_w = dict(self.wclk)
        old_r = {k: list(v) for k, v in self.rclk.items()}
        old_ts = [(st.vc, st.facq, st.token, st.tokclk) for st in self.ts]
        upd_shared = {}  # name -> [(cond, val)]
        upd_rel, upd_w, upd_r = {}, {}, {}
        upd_tok = {t: [] for t in range(T)}
        upd_tokclk = {t: [] for t in range(T)}
        new_ts = []
        for t in range(T):
            st = self.ts[t]
            sel = z3.And(self.sched[i] == t, en[t])
            nlocs, nenv_upd, vc_upd, facq_upd = {}, {}, [], []
            for loc, guard in list(st.locs.items()):
                if loc[0] >= len(sc.threads[t]):
                    nlocs[loc] = z3.Or(nlocs[loc], guard) if loc in nlocs else guard
                    continue
                blk = self.blocked(t, loc)
                act = z3.And(guard, sel, z3.Not(blk)) if not z3.is_false(guard) else guard
                stay = z3.And(guard, z3.Not(z3.And(sel, z3.Not(blk)))) if not z3.is_false(guard) else guard
                if not z3.is_false(stay):
                    nlocs[loc] = z3.Or(nlocs[loc], stay) if loc in nlocs else stay
                if z3.is_false(act):
                    continue
                ctx = StepCtx(self, t, i, st, old_shared, old_rel, old_w, old_r)
                outs = ctx.big_step(loc)
                for o in outs:
                    oc = o.cond
                    if z3.is_false(oc):
                        continue
                    c = mk_and(act, oc)
                    nlocs[o.loc] = z3.Or(nlocs[o.loc], c) if o.loc in nlocs else c
                    for k, v in o.env.items():
                        nenv_upd.setdefault(k, []).append((c, v))
                    for k, v in o.shared.items():
                        upd_shared.setdefault(k, []).append((c, v))
                    for k, v in o.rel.items():
                        upd_rel.setdefault(k, []).append((c, v))
                    for k, v in o.w.items():
                        upd_w.setdefault(k, []).append((c, v))
                    for k, v in o.r.items():
                        upd_r.setdefault(k, []).append((c, v))
                    vc_upd.append((c, o.vc))
                    facq_upd.append((c, o.facq))
                    if o.token is not None:
                        upd_tok[t].append((c, o.token))
                    for (u, tv, tclk) in o.unparks:
                        upd_tok[u].append((c, tv))
                        upd_tokclk[u].append((c, tclk))
                    for (kind, bc, text) in o.bad:
                        self.add_bad(kind, z3.And(c, bc))
                    for text in o.events:
                        self.events.append((i, t, c, text))
            nst = TState()
            nst.locs = nlocs
            nst.env = dict(st.env)
            for k, lst in nenv_upd.items():
                cur = st.env.get(k)
                for (c, v) in lst:
                    cur = ite(c, v, cur)
                nst.env[k] = cur
            vc = st.vc
            for (c, v) in vc_upd:
                vc = [z3.If(c, a, b) for a, b in zip(v, vc)]
            nst.vc = vc
            fa = st.facq
            for (c, v) in facq_upd:
                fa = [z3.If(c, a, b) for a, b in zip(v, fa)]
            nst.facq = fa
            new_ts.append(nst)
        for t in range(T):
            tok = self.ts[t].token
            for (c, v) in upd_tok[t]:
                tok = z3.If(c, v, tok)
            new_ts[t].token = tok
            tc = self.ts[t].tokclk
            for (c, v) in upd_tokclk[t]:
                tc = [z3.If(c, a, b) for a, b in zip(v, tc)]
            new_ts[t].tokclk = tc
        for k, lst in upd_shared.items():
            cur = old_shared[k]
            for (c, v) in lst:
                cur = z3.If(c, v, cur)
            self.shared[k] = cur
        for k, lst in upd_rel.items():
            cur = old_rel.get(k, self.vc_zero())
            for (c, v) in lst:
                cur = [z3.If(c, a, b) for a, b in zip(v, cur)]
            self.rel[k] = cur
        for k, lst in upd_w.items():
            cur = old_w[k]
            for (c, v) in lst:
                cur = (z3.If(c, v[0], cur[0]), z3.If(c, v[1], cur[1]))
            self.wclk[k] = cur
        for k, lst in upd_r.items():
            cur = old_r[k]
            for (c, v) in lst:
                cur = [z3.If(c, a, b) for a, b in zip(v, cur)]
            self.rclk[k] = cur
        self.ts = new_ts

    # ----- state predicates
    def finished(self, t):
        g = [guard for loc, guard in self.ts[t].locs.items() if loc[0] >= len(self.sc.threads[t])]
        return z3.Or(g) if g else z3.BoolVal(False)

    def all_finished(self):
        return z3.And([self.finished(t) for t in range(self.T)])


class Out:
    def __init__(self):
        self.cond = z3.BoolVal(True)
        self.loc = None
        self.env, self.shared, self.rel, self.w, self.r = {}, {}, {}, {}, {}
        self.vc = None
        self.facq = None
        self.token = None
        self.unparks = []
        self.bad = []
        self.events = []


class StepCtx:
    """executes one big step of thread t from a location, exploring local branches"""

    MAX_STMTS = 600

    def __init__(self, run, t, i, st, shared, rel, w, r):
        self.run, self.t, self.i, self.st = run, t, i, st
        self.shared0, self.rel0, self.w0, self.r0 = shared, rel, w, r
        self.eng = run.eng

    def big_step(self, loc):
        outs = []
        o = Out()
        o.vc = list(self.st.vc)
        o.facq = list(self.st.facq)
        self.explore(loc, o, True, 0, outs)
        return outs

    # value lookup with local overrides
    def get_shared(self, o, name):
        return o.shared.get(name, self.shared0[name])

    def get_rel(self, o, name):
        return o.rel.get(name, self.rel0.get(name, self.run.vc_zero()))

    def lookup(self, o, key):
        if key in o.env:
            return o.env[key]
        return self.st.env.get(key)

    def fork(self, o):
        n = Out()
        n.cond = o.cond
        n.env, n.shared, n.rel, n.w, n.r = dict(o.env), dict(o.shared), dict(o.rel), dict(o.w), dict(o.r)
        n.vc, n.facq, n.token = list(o.vc), list(o.facq), o.token
        n.unparks, n.bad, n.events = list(o.unparks), list(o.bad), list(o.events)
        return n

    def explore(self, loc, o, first, count, outs):
        """run from loc; `first`: the visible action at loc is still to be performed"""
        run, t = self.run, self.t
        script = run.sc.threads[t]
        while True:
            count += 1
            if count > self.MAX_STMTS:
                fr = loc[1][-1] if loc[1] else None
                raise Unsupported("local computation too long (unbounded local loop?) in thread %d at %s %s" % (
                    t, fr[0].short() if fr else "-", fr[1] if fr else "-"))
            idx, frames = loc
            if idx >= len(script):
                o.loc = loc
                outs.append(o)
                return
            item = script[idx]
            if not frames:
                if item[0] in ("ghost", "await", "set"):
                    if not first:
                        o.loc = loc
                        outs.append(o)
                        return
                    self.ghost(o, item)
                    first = False
                    loc = (idx + 1, ())
                    continue
                if item[0] == "call":
                    f = self.eng.fn(item[1])
                    key = "t%d.i%d" % (t, idx)
                    for (pl, pt), val in zip(f.params, item[2]):
                        o.env[(key, pl)] = val
                    frames = ((f, "bb0", 0, key, None, None),)
                    loc = (idx, frames)
                    continue
                raise Unsupported("script item " + str(item))
            f, bb, si, key, ret_dest, ret_bb = frames[-1]
            if bb in f.cleanup:
                raise Unsupported("unwinding path reached in " + f.name)
            stmts, term = f.blocks[bb]
            if si < len(stmts):
                self.stmt(o, f, key, stmts[si])
                loc = (idx, frames[:-1] + ((f, bb, si + 1, key, ret_dest, ret_bb),))
                continue
            # terminator
            res = self.terminator(o, f, key, term, loc, first, count, outs)
            if res is None:
                return
            loc, first = res

    # ------------------------------------------------------------------ ghost events
    def ghost(self, o, item):
        run, t = self.run, self.t
        kind = item[1] if item[0] == "ghost" else item[0]
        if item[0] == "await":
            return
        if item[0] == "set":
            o.shared[item[1]] = item[2]
            return
        loc = item[2]
        if kind in ("read", "write", "eol"):
            self.nonatomic_access(o, loc, write=(kind != "read"), what="ghost %s %s" % (kind, loc))
            if kind == "write" and loc in self.shared0 and len(item) > 3:
                o.shared[loc] = item[3](self.get_shared(o, loc))
        elif kind == "rel":
            # publishing event with release semantics on a ghost flag (e.g. channel-lock release after registration)
            o.rel["ghost:" + loc] = list(o.vc)
            o.vc[t] = o.vc[t] + 1
            o.shared[loc] = z3.BoolVal(True)
        elif kind == "acq":
            r = self.get_rel(o, "ghost:" + loc)
            o.vc = run.vc_join(o.vc, r)
        elif kind == "enter":
            # critical-section monitor: counts threads inside
            cur = self.get_shared(o, loc)
            o.bad.append(("mutual_exclusion", cur != 0, "two threads inside the critical section"))
            o.shared[loc] = cur + 1
        elif kind == "leave":
            o.shared[loc] = self.get_shared(o, loc) - 1
        else:
            raise Unsupported("ghost " + kind)
        o.events.append("ghost %s %s" % (kind, loc))

    def nonatomic_access(self, o, loc, write, what):
        run, t = self.run, self.t
        wt, wc = o.w.get(loc, self.w0[loc])
        rc = o.r.get(loc, self.r0[loc])
        # race with the last write unless it happens-before this access
        conds = []
        for u in range(run.T):
            if u == t:
                continue
            conds.append(z3.And(wt == u, wc != 0, z3.Not(z3.ULE(wc, o.vc[u]))))
            if write:
                conds.append(z3.And(rc[u] != 0, z3.Not(z3.ULE(rc[u], o.vc[u]))))
        o.bad.append(("data_race", z3.Or(conds) if conds else z3.BoolVal(False), what))
        if write:
            o.w[loc] = (bv(t, 4), o.vc[t])
            o.r[loc] = [bv(0, CLK) for _ in range(run.T)]
        else:
            nr = list(rc)
            nr[t] = o.vc[t]
            o.r[loc] = nr

    # ------------------------------------------------------------------ statements
    def operand(self, o, f, key, txt):
        txt = txt.strip()
        m = re.match(r"(?:move|copy) (.*)$", txt)
        if m:
            return self.place_read(o, f, key, m.group(1))
        m = re.match(r"const (.*)$", txt)
        if m:
            return self.eng.const(m.group(1))
        return self.place_read(o, f, key, txt)

    def place_read(self, o, f, key, p):
        p = p.strip()
        if re.match(r"_\d+$", p):
            return self.lookup(o, (key, p))
        m = re.match(r"\((_\d+)\.(\d+): [^)]*\)$", p)
        if m:
            v = self.lookup(o, (key, m.group(1)))
            if isinstance(v, dict):
                return v.get(m.group(2))
            raise Unsupported("field of non-ADT " + p)
        m = re.match(r"\(\((_\d+) as (\w+)\)\.(\d+): [^)]*\)$", p)
        if m:
            v = self.lookup(o, (key, m.group(1)))
            return v["val"]
        m = re.match(r"\(\*(_\d+)\)$", p)
        if m:
            ref = self.lookup(o, (key, m.group(1)))
            return self.deref_read(o, ref)
        m = re.match(r"\(\(\*(_\d+)\)\.(\d+): [^)]*\)$", p)
        if m:
            ref = self.lookup(o, (key, m.group(1)))
            return self.deref_read(o, ("field", ref, m.group(2)))
        raise Unsupported("place read " + p)

    def deref_read(self, o, ref):
        if ref is None:
            raise Unsupported("deref of unknown reference")
        if ref[0] == "local":
            return self.lookup(o, (ref[1], ref[2]))
        if ref[0] == "closure":
            return ref
        if ref[0] == "field" and ref[1][0] == "closure":
            return ref[1][1][ref[2]]
        if ref[0] == "field" and ref[1][0] == "local":
            v = self.lookup(o, (ref[1][1], ref[1][2]))
            if isinstance(v, tuple) and v[0] == "closure":
                return v[1][ref[2]]
        raise Unsupported("deref read of " + str(ref))

    def set_local(self, o, key, local, val):
        o.env[(key, local)] = val

    def stmt(self, o, f, key, s):
        if s.startswith("StorageLive") or s.startswith("StorageDead") or s.startswith("FakeRead") or s == "nop;" or \
                s.startswith("PlaceMention") or s.startswith("AscribeUserType") or s.startswith("Coverage") or s == "ConstEvalCounter;":
            return
        m = re.match(r"(_\d+) = (.*);$", s)
        if not m:
            m2 = re.match(r"\(\*(_\d+)\) = (.*);$", s)
            if m2:
                ref = self.lookup(o, (key, m2.group(1)))
                val = self.operand(o, f, key, m2.group(2))
                self.deref_write(o, ref, val)
                return
            raise Unsupported("statement " + s)
        dest, rhs = m.group(1), m.group(2).strip()
        self.set_local(o, key, dest, self.rvalue(o, f, key, dest, rhs))

    def deref_write(self, o, ref, val):
        run, t = self.run, self.t
        if ref and ref[0] == "shared_na":
            # non-atomic shared cell (e.g. the waker cell of a signal)
            self.nonatomic_access(o, ref[1], write=True, what="write " + ref[1])
            o.shared[ref[1]] = z3.If(val["disc"] == 0, bv(255, 8), val["val"]) if isinstance(val, dict) else val
            o.events.append("write %s" % ref[1])
            return
        raise Unsupported("write through " + str(ref))

    def rvalue(self, o, f, key, dest, rhs):
        ty = f.locals.get(dest, "")
        if rhs == "()" or rhs == "const ()":
            return None
        m = re.match(r"std::sync::atomic::Ordering::(\w+)$", rhs)
        if m:
            return ("ord", m.group(1))
        m = re.match(r"(Eq|Ne|Lt|Le|Gt|Ge|Add|Sub|Shl|Shr|BitAnd|BitOr|Div|Rem|Mul|AddWithOverflow|SubWithOverflow|MulWithOverflow)\((.*)\)$", rhs)
        if m:
            op = m.group(1)
            a_txt, b_txt = M_split2(m.group(2))
            a, b = self.operand(o, f, key, a_txt), self.operand(o, f, key, b_txt)
            r = self.binop(op, a, b, ty, f, key, a_txt)
            if isinstance(r, dict):
                return {k: fold(v) for k, v in r.items()}
            return fold(r)
        m = re.match(r"Not\((.*)\)$", rhs)
        if m:
            a = self.operand(o, f, key, m.group(1))
            return z3.Not(a) if z3.is_bool(a) else ~a
        m = re.match(r"(.*) as (\w+) \(IntToInt\)$", rhs)
        if m:
            a = self.operand(o, f, key, m.group(1))
            w = WIDTH[m.group(2)]
            if a.size() == w:
                return a
            if a.size() > w:
                return z3.Extract(w - 1, 0, a)
            signed = m.group(1).strip().split("_")[-1].startswith("i") or re.search(r"_i\d+$", m.group(1).strip()) is not None
            return z3.SignExt(w - a.size(), a) if signed else z3.ZeroExt(w - a.size(), a)
        m = re.match(r"discriminant\((.*)\)$", rhs)
        if m:
            inner = m.group(1).strip()
            dm = re.match(r"\(\*(_\d+)\)$", inner)
            if dm:
                ref = self.lookup(o, (key, dm.group(1)))
                if ref and ref[0] == "static_disc":
                    return bv(ref[1], 64)
                raise Unsupported("discriminant of " + str(ref))
            v = self.lookup(o, (key, inner))
            if isinstance(v, dict) and "disc" in v:
                return v["disc"]
            raise Unsupported("discriminant of " + inner)
        m = re.match(r"std::ops::Range::<(\w+)> \{ start: (.*), end: (.*) \}$", rhs)
        if m:
            return {"start": self.operand(o, f, key, m.group(2)), "end": self.operand(o, f, key, m.group(3))}
        m = re.match(r"\{(closure@[^}]*)\} \{ (\w+): (.*) \}$", rhs)
        if m:
            return ("closure", {"0": self.operand(o, f, key, m.group(3))}, m.group(1))
        m = re.match(r"Option::<[^>]*>::Some\((.*)\)$", rhs)
        if m:
            return {"disc": bv(1, 64), "val": self.operand(o, f, key, m.group(1))}
        m = re.match(r"Poll::<bool>::Ready\((.*)\)$", rhs)
        if m:
            return {"disc": bv(0, 64), "val": self.operand(o, f, key, m.group(1))}
        if rhs == "Poll::<bool>::Pending":
            return {"disc": bv(1, 64), "val": z3.BoolVal(False)}
        # references
        m = re.match(r"&(?:mut )?\(\*(_\d+)\)$", rhs)
        if m:
            return self.lookup(o, (key, m.group(1)))
        m = re.match(r"&(?:mut )?(_\d+)$", rhs)
        if m:
            return ("local", key, m.group(1))
        m = re.match(r"&(?:mut )?\(\(\*(_\d+)\)\.(\d+): ([^)]*)\)$", rhs)
        if m:
            base = self.lookup(o, (key, m.group(1)))
            return self.field_ref(base, m.group(2), m.group(3))
        m = re.match(r"&(?:mut )?\(\(\(\*(_\d+)\) as (\w+)\)\.(\d+): ([^)]*)\)$", rhs)
        if m:
            base = self.lookup(o, (key, m.group(1)))
            return self.variant_ref(base, m.group(2), m.group(3))
        m = re.match(r"(?:no_retag )?(?:copy|move) (.*)$", rhs)
        if m:
            return self.place_read(o, f, key, m.group(1))
        m = re.match(r"const (.*)$", rhs)
        if m:
            return self.eng.const(m.group(1))
        raise Unsupported("rvalue " + rhs)

    def field_ref(self, base, idx, ty):
        if base and base[0] == "obj":
            fields = base[2]
            if idx in fields:
                return fields[idx]
        if base and base[0] in ("closure",):
            return base[1][idx]
        if base and base[0] == "local":
            return ("field", base, idx)
        raise Unsupported("field %s of %s" % (idx, base))

    def variant_ref(self, base, variant, idx):
        if base and base[0] == "static_disc":
            return base[2][variant][idx]
        raise Unsupported("variant %s of %s" % (variant, base))

    def binop(self, op, a, b, ty, f, key, a_txt):
        signed = False
        tm = re.search(r"_i\d+\b", a_txt)
        if op in ("Lt", "Le", "Gt", "Ge"):
            # signedness from the operand's declared type
            lm = re.match(r"(?:move|copy) (_\d+)", a_txt.strip())
            if lm:
                signed = f.locals.get(lm.group(1), "").startswith("i")
            elif tm:
                signed = True
        if op in ("Shl", "Shr") and a.size() != b.size():
            b = z3.ZeroExt(a.size() - b.size(), b) if a.size() > b.size() else z3.Extract(a.size() - 1, 0, b)
        if op == "Eq":
            return a == b
        if op == "Ne":
            return a != b
        if op == "Lt":
            return (a < b) if signed else z3.ULT(a, b)
        if op == "Le":
            return (a <= b) if signed else z3.ULE(a, b)
        if op == "Gt":
            return (a > b) if signed else z3.UGT(a, b)
        if op == "Ge":
            return (a >= b) if signed else z3.UGE(a, b)
        if op == "Add":
            return a + b
        if op == "Sub":
            return a - b
        if op == "Mul":
            return a * b
        if op == "Shl":
            return a << b
        if op == "Shr":
            return z3.LShR(a, b)
        if op == "BitAnd":
            return a & b
        if op == "BitOr":
            return a | b
        if op == "Div":
            return z3.UDiv(a, b)
        if op == "Rem":
            return z3.URem(a, b)
        if op in ("AddWithOverflow", "SubWithOverflow"):
            w = a.size()
            if op == "AddWithOverflow":
                r = a + b
                ov = z3.ULT(r, a)
            else:
                r = a - b
                ov = z3.ULT(a, b)
            return {"0": r, "1": ov}
        raise Unsupported("binop " + op)

    # ------------------------------------------------------------------ terminators
    def terminator(self, o, f, key, term, loc, first, count, outs):
        idx, frames = loc
        cur = frames[-1]

        def goto(bb):
            return ((idx, frames[:-1] + ((f, bb, 0, key, cur[4], cur[5]),)), first)

        m = re.match(r"goto -> (bb\d+);$", term)
        if m:
            return goto(m.group(1))
        if term == "return;":
            rv = self.lookup(o, (key, "_0"))
            rest = frames[:-1]
            if not rest:
                item = self.run.sc.threads[self.t][idx]
                if len(item) > 3 and item[3]:
                    o.env[("ret", item[3])] = rv
                o.events.append("return from %s" % f.short())
                return ((idx + 1, ()), first)
            caller = rest[-1]
            cf, cbb, csi, ckey = caller[0], caller[1], caller[2], caller[3]
            if cur[4] is not None:
                o.env[(ckey, cur[4])] = rv
            return ((idx, rest[:-1] + ((cf, cur[5], 0, ckey, caller[4], caller[5]),)), first)
        if term == "unreachable;":
            o.bad.append(("panic", z3.BoolVal(True), "unreachable reached in " + f.short()))
            o.loc = (len(self.run.sc.threads[self.t]), ())
            outs.append(o)
            return None
        m = re.match(r"switchInt\((?:move|copy) (_\d+)\) -> \[(.*)\];$", term)
        if m:
            v = self.lookup(o, (key, m.group(1)))
            arms = [a.strip() for a in m.group(2).split(",")]
            taken_any = z3.BoolVal(False)
            branches = []
            for a in arms:
                lab, bb = [x.strip() for x in a.split(":")]
                if lab == "otherwise":
                    cond = mk_not(taken_any)
                else:
                    n = int(lab)
                    if z3.is_bool(v):
                        cond = v if n != 0 else mk_not(v)
                    else:
                        cond = fold(v == bv(n, v.size()))
                    taken_any = cond if z3.is_false(taken_any) else (taken_any if z3.is_false(cond) else z3.Or(taken_any, cond))
                    if z3.is_true(cond):
                        taken_any = cond
                branches.append((cond, bb))
            live = []
            for cond, bb in branches:
                c = cond
                if z3.is_false(c):
                    continue
                live.append((c, bb))
            if len(live) == 1:
                return goto(live[0][1])
            for c, bb in live:
                if count > 60:
                    # prune infeasible local paths (e.g. "0 < spins" false) before they loop without a visible action
                    chk = z3.Solver()
                    chk.set("timeout", 2000)
                    chk.add(o.cond, c)
                    if chk.check() == z3.unsat:
                        continue
                n = self.fork(o)
                n.cond = mk_and(o.cond, c)
                nloc, nf = goto(bb)
                self.explore(nloc, n, nf, count, outs)
            return None
        m = re.match(r"assert\((!?)(?:move|copy) (.*?), \"(.*?)\".*\) -> \[success: (bb\d+), unwind.*\];$", term)
        if m:
            v = self.operand(o, f, key, "copy " + m.group(2)) if not m.group(2).startswith("(") else self.place_read(o, f, key, m.group(2))
            ok = z3.Not(v) if m.group(1) == "!" else v
            o.bad.append(("panic", z3.Not(ok), "assert failed: " + m.group(3)))
            return goto(m.group(4))
        m = re.match(r"drop\((.*)\) -> \[return: (bb\d+), unwind.*\];$", term)
        if m:
            return goto(m.group(2))
        m = re.match(r"(_\d+) = (.*)\) -> (?:\[return: (bb\d+), unwind[^\]]*\]|unwind continue);$", term)
        if m:
            dest, body, ret_bb = m.group(1), m.group(2), m.group(3)
            # split `callee(args` at the parenthesis matching the final one
            d, k = 0, None
            for j in range(len(body) - 1, -1, -1):
                ch = body[j]
                if ch == ")":
                    d += 1
                elif ch == "(":
                    if d == 0:
                        k = j
                        break
                    d -= 1
            if k is None:
                raise Unsupported("call syntax " + term)
            callee, args_txt = body[:k], body[k + 1:]
            return self.call(o, f, key, dest, callee, args_txt, ret_bb, loc, first, count, outs)
        raise Unsupported("terminator " + term)

    # ------------------------------------------------------------------ calls
    def call(self, o, f, key, dest, callee, args_txt, ret_bb, loc, first, count, outs):
        run, t = self.run, self.t
        idx, frames = loc
        cur = frames[-1]
        args = [a for a in M_split_args(args_txt)]

        def cont(val=None):
            if val is not None or True:
                o.env[(key, dest)] = val
            return ((idx, frames[:-1] + ((f, ret_bb, 0, key, cur[4], cur[5]),)), False if visible else first)

        visible = False
        base = re.sub(r"::<[^>]*>", "", callee)
        last = base.split("::")[-1]
        # ---- pure / no-op primitives
        if base in NOOPS or last in ("yield_now_std", "spin_hint") or base.startswith("backoff::sleep") or base == "backoff::yield_now":
            return cont(None)
        if base.startswith("Duration::from_nanos"):
            return cont(None)
        if last == "get_parallelism":
            return cont(run.par)
        if base.endswith("IntoIterator>::into_iter"):
            return cont(self.operand(o, f, key, args[0]))
        if base.endswith("Iterator>::next") and "Range" in base:
            ref = self.operand(o, f, key, args[0])
            rng = self.deref_read(o, ref)
            m = re.search(r"Range<(\w+)>", callee)
            signed = m.group(1).startswith("i")
            has = fold((rng["start"] < rng["end"]) if signed else z3.ULT(rng["start"], rng["end"]))
            # Spin-phase abstraction (signal.rs only): the bounded polling loops `for _ in 0..256 / 0..32` of the wait
            # functions may end after any number of iterations (a fresh solver variable per evaluation).  Nothing after
            # such a loop depends on its trip count, so this over-approximates "the peer is slow" and lets a K-step
            # unrolling reach the park path, which 256 visible loads would otherwise push out of every bound.
            if "ignal" in f.name and z3.is_bv_value(rng["end"]) and not z3.is_false(has):
                try:
                    endv = rng["end"].as_long()
                except Exception:
                    endv = 0
                if endv >= 16:
                    cut = run.fresh_bool("spincut_%d_%d" % (self.t, self.i))
                    has = z3.Not(cut) if z3.is_true(has) else z3.And(has, z3.Not(cut))
            w = rng["start"].size()
            if is_val(has):
                nstart = fold(rng["start"] + 1) if z3.is_true(has) else rng["start"]
                disc = bv(1, 64) if z3.is_true(has) else bv(0, 64)
            else:
                nstart = z3.If(has, rng["start"] + 1, rng["start"])
                disc = z3.If(has, bv(1, 64), bv(0, 64))
            o.env[(ref[1], ref[2])] = {"start": nstart, "end": rng["end"]}
            return cont({"disc": disc, "val": rng["start"]})
        if re.match(r"Result::<.*>::is_(ok|err)$", callee):
            ref = self.operand(o, f, key, args[0])
            r = self.deref_read(o, ref)
            isok = fold(r["disc"] == 0)
            return cont(isok if callee.endswith("is_ok") else mk_not(isok))
        if base.startswith("UnsafeCell") and last == "get":
            cell = self.operand(o, f, key, args[0])
            if cell and cell[0] == "cell":
                return cont(("shared_na", cell[1]))
            raise Unsupported("UnsafeCell::get on " + str(cell))
        if re.match(r"Option::<&?Thread>::unwrap$", callee) or re.match(r"Option::<&Thread>::unwrap$", callee):
            v = self.operand(o, f, key, args[0])
            o.bad.append(("panic", v["disc"] == 0, "unwrap on an empty waker cell (thread handle not stored yet)"))
            return cont(v["val"])
        if callee == "<Thread as Clone>::clone":
            v = self.operand(o, f, key, args[0])
            return cont(self.deref_value(o, v))
        if callee.startswith("Instant::now"):
            return cont(None)
        if last == "current":
            return cont(bv(t, 8))
        if callee == "<Instant as PartialOrd>::lt":
            # virtual time: whether the deadline is still ahead is a free choice at every reading
            return cont(run.fresh_bool("before_deadline_%d_%d" % (self.t, self.i)))
        if last == "panic" or base.startswith("panic"):
            o.bad.append(("panic", z3.BoolVal(True), "panic in " + f.short()))
            o.loc = (len(run.sc.threads[t]), ())
            outs.append(o)
            return None
        # ---- closure call / kanal functions: inline
        if base.endswith("Fn<()>>::call") or base.endswith("FnMut<()>>::call_mut") or base.endswith("FnOnce<()>>::call_once"):
            cref = self.operand(o, f, key, args[0])
            clo = self.deref_read(o, cref) if cref[0] != "closure" else cref
            cands = [g for fl in self.eng.fns.values() for g in fl if g.params and clo[2] in g.params[0][1]]
            if len(cands) != 1:
                raise Unsupported("closure body for " + clo[2])
            target = cands[0]
            self.eng.encoded.add(target.name)
            nkey = key + "/" + target.name.split("::")[-1] + "@" + cur[1]
            o.env[(nkey, "_1")] = clo
            nframes = frames[:-1] + ((f, cur[1], cur[2], key, cur[4], cur[5]), (target, "bb0", 0, nkey, dest, ret_bb))
            return ((idx, nframes), first)
        inl = run.sc.inline_map if hasattr(run.sc, "inline_map") else {}
        for pat, suffix in INLINE:
            if re.search(pat, callee):
                target = self.eng.fn(suffix)
                nkey = key + "/" + target.name.split("::")[-1] + "@" + cur[1]
                for (pl, pt), a in zip(target.params, args):
                    o.env[(nkey, pl)] = self.operand(o, f, key, a)
                nframes = frames[:-1] + ((f, cur[1], cur[2], key, cur[4], cur[5]), (target, "bb0", 0, nkey, dest, ret_bb))
                return ((idx, nframes), first)
        # ---- visible primitives: only one per big step
        if not first:
            o.loc = loc
            outs.append(o)
            return None
        visible = True
        if re.match(r"Atomic::<\w+>::(load|store|compare_exchange|compare_exchange_weak|swap|fetch_add)$", callee):
            return self.atomic(o, f, key, dest, callee, args, cont)
        if last == "fence":
            od = self.operand(o, f, key, args[0])[1]
            if od in ("Acquire", "AcqRel", "SeqCst"):
                o.vc = run.vc_join(o.vc, o.facq)
            o.events.append("fence(%s)" % od)
            return cont(None)
        if last == "park":
            # enabled only with a token or spuriously (see Run.blocked); a token is consumed and synchronises
            has = self.st.token
            o.vc = [z3.If(has, a, b) for a, b in zip(run.vc_join(o.vc, self.st.tokclk), o.vc)]
            o.token = z3.BoolVal(False)
            o.events.append("park returns")
            return cont(None)
        if re.match(r"Option::<Thread>::as_ref$", callee):
            ref = self.operand(o, f, key, args[0])
            if not ref or ref[0] != "shared_na":
                raise Unsupported("as_ref on " + str(ref))
            self.touch_frame(o, ref[1])
            self.nonatomic_access(o, ref[1], write=False, what="read " + ref[1])
            val = self.get_shared(o, ref[1])
            o.events.append("read %s" % ref[1])
            return cont({"disc": z3.If(val == 255, bv(0, 64), bv(1, 64)), "val": val})
        if re.match(r"KanalPtr::<T>::(write|read|copy)$", callee):
            self.touch_frame(o, "slot")
            w = callee.endswith("write") or callee.endswith("copy")
            self.nonatomic_access(o, "slot", write=w, what="payload %s" % ("write" if w else "read"))
            o.events.append("payload %s" % ("write" if w else "read"))
            return cont(None)
        if callee == "<Waker as Clone>::clone":
            ref = self.operand(o, f, key, args[0])
            if not ref or ref[0] != "waker":
                raise Unsupported("Waker::clone on " + str(ref))
            self.touch_frame(o, ref[1])
            self.nonatomic_access(o, ref[1], write=False, what="read " + ref[1])
            o.events.append("clone task waker")
            return cont(self.get_shared(o, ref[1]))
        if callee == "Waker::wake_by_ref":
            ref = self.operand(o, f, key, args[0])
            if not ref or ref[0] != "waker":
                raise Unsupported("Waker::wake_by_ref on " + str(ref))
            # uses the waker stored in the waiter's own future: an access to the waiter's memory
            self.touch_frame(o, ref[1])
            self.nonatomic_access(o, ref[1], write=False, what="read " + ref[1] + " (wake_by_ref on the stored waker)")
            o.shared["woken"] = z3.BoolVal(True)
            o.vc[t] = o.vc[t] + 1
            o.events.append("Waker::wake_by_ref on the waker stored in the waiter")
            return cont(None)
        if callee == "Waker::wake":
            o.shared["woken"] = z3.BoolVal(True)
            o.vc[t] = o.vc[t] + 1
            o.events.append("Waker::wake")
            return cont(None)
        if last == "unpark":
            th = self.operand(o, f, key, args[0])
            th = self.deref_value(o, th)
            for u in range(run.T):
                o.unparks.append((u, z3.If(th == u, z3.BoolVal(True), run.ts[u].token if False else self._tok(u)), self._tokclk_after(u, th, o)))
            o.vc[t] = o.vc[t] + 1
            o.events.append("unpark")
            return cont(None)
        raise Unsupported("call to " + callee)

    def touch_frame(self, o, name):
        """an access of a non-owner thread to memory living in the waiter's frame / future: must be ordered before
        the owner's end-of-life event (ghost eol on 'sigframe')"""
        owner = getattr(self.run.sc, "owner", None)
        if owner is not None and self.t != owner and "sigframe" in self.w0:
            self.nonatomic_access(o, "sigframe", write=False, what="access to %s in the waiter's frame" % name)

    def _tok(self, u):
        return self.run.ts[u].token

    def _tokclk_after(self, u, th, o):
        cur = self.run.ts[u].tokclk
        j = self.run.vc_join(cur, o.vc)
        return [z3.If(th == u, a, b) for a, b in zip(j, cur)]

    def deref_value(self, o, v):
        if is_z3(v):
            return v
        if isinstance(v, dict):
            return v["val"]
        if v and v[0] == "local":
            return self.deref_value(o, self.lookup(o, (v[1], v[2])))
        raise Unsupported("value of " + str(v))

    def atomic(self, o, f, key, dest, callee, args, cont):
        run, t = self.run, self.t
        kind = callee.split("::")[-1]
        ref = self.operand(o, f, key, args[0])
        if not ref or ref[0] != "shared":
            raise Unsupported("atomic access through " + str(ref))
        name = ref[1]
        cur = self.get_shared(o, name)
        rel = self.get_rel(o, name)
        if name.startswith("sig."):
            self.touch_frame(o, name)

        def acquire_from(ordname, cond=None):
            if ordname in ("Acquire", "AcqRel", "SeqCst"):
                j = run.vc_join(o.vc, rel)
                o.vc = j if cond is None else [z3.If(cond, a, b) for a, b in zip(j, o.vc)]
            else:
                j = run.vc_join(o.facq, rel)
                o.facq = j if cond is None else [z3.If(cond, a, b) for a, b in zip(j, o.facq)]

        def release_to(ordname, rmw, cond=None):
            if ordname in ("Release", "AcqRel", "SeqCst"):
                new = run.vc_join(rel, o.vc) if rmw else list(o.vc)
                bump = True
            else:
                new = list(rel) if rmw else run.vc_zero()
                bump = False
            if cond is not None:
                new = [z3.If(cond, a, b) for a, b in zip(new, rel)]
            o.rel[name] = new
            if bump:
                o.vc = list(o.vc)
                o.vc[t] = o.vc[t] + 1 if cond is None else z3.If(cond, o.vc[t] + 1, o.vc[t])

        if kind == "load":
            od = self.operand(o, f, key, args[1])[1]
            acquire_from(od)
            o.events.append("%s.load(%s)" % (name, od))
            return cont(cur)
        if kind == "store":
            val = self.operand(o, f, key, args[1])
            od = self.operand(o, f, key, args[2])[1]
            release_to(od, rmw=False)
            o.shared[name] = val
            o.events.append("%s.store(%s)" % (name, od))
            return cont(None)
        if kind in ("compare_exchange", "compare_exchange_weak"):
            exp = self.operand(o, f, key, args[1])
            new = self.operand(o, f, key, args[2])
            so = self.operand(o, f, key, args[3])[1]
            fo = self.operand(o, f, key, args[4])[1]
            ok = cur == exp
            if kind == "compare_exchange_weak":
                ok = z3.And(ok, run.fresh_bool("weakcas"))
            # success: RMW with `so`; failure: load with `fo`
            vc_before, facq_before = list(o.vc), list(o.facq)
            acquire_from(so, ok)
            if fo in ("Acquire", "SeqCst"):
                j = run.vc_join(vc_before, rel)
                o.vc = [z3.If(ok, a, z3.If(True, b, b)) for a, b in zip(o.vc, j)]
                o.vc = [z3.If(ok, a, b) for a, b in zip(o.vc, j)]
            else:
                j = run.vc_join(facq_before, rel)
                o.facq = [z3.If(ok, a, b) for a, b in zip(o.facq, j)]
            release_to(so, rmw=True, cond=ok)
            o.shared[name] = z3.If(ok, new, cur)
            o.events.append("%s.compare_exchange(%s,%s)" % (name, so, fo))
            return cont({"disc": z3.If(ok, bv(0, 64), bv(1, 64)), "val": cur})
        raise Unsupported("atomic " + kind)


INLINE = [
    (r"<RawMutexLock as RawMutex>::try_lock$", "mutex.rs::try_lock"),
    (r"<RawMutexLock as RawMutex>::lock$", "mutex.rs::lock"),
    (r"<RawMutexLock as RawMutex>::unlock$", "mutex.rs::unlock"),
    (r"RawMutexLock::lock_no_inline$", "mutex.rs::lock_no_inline"),
    (r"^(backoff::)?spin_cond::<", "backoff.rs::spin_cond"),
    (r"^signal::Signal::<T>::wake$", "signal.rs::wake"),
    (r"^signal::Signal::<T>::send$", "signal.rs::send|\\*const"),
    (r"^signal::Signal::<T>::recv$", "signal.rs::recv|\\*const"),
    (r"^signal::Signal::<T>::terminate$", "signal.rs::terminate|\\*const"),
]


def M_split2(s):
    parts = M_split_args(s)
    if len(parts) != 2:
        raise Unsupported("binary operands: " + s)
    return parts


def M_split_args(s):
    out, d, cur, q = [], 0, "", False
    for ch in s:
        if ch == '"':
            q = not q
        if not q:
            if ch in "<([{":
                d += 1
            elif ch in ">)]}":
                d -= 1
            if ch == "," and d == 0:
                out.append(cur.strip())
                cur = ""
                continue
        cur += ch
    if cur.strip():
        out.append(cur.strip())
    return out
