#!/bin/bash
# confirm.sh <dir-id e.g. C06e>: fresh worktree, suite with change, demo with and without
id=$1; src=/tmp/wt/$id/seeded_out; w=/tmp/wt/cf_$id
git -C /repo worktree remove --force $w 2>/dev/null; rm -rf $w
git -C /repo worktree add -f --detach $w HEAD >/dev/null 2>&1
cd $w && git apply $src/patch.diff || { echo "PATCH DOES NOT APPLY"; exit 3; }
echo "src diff now: $(git diff --stat -- src | tail -1)"
export CARGO_NET_OFFLINE=true
echo "== suite with change"; (cargo test --offline --lib --test async_test --test sync_test 2>&1 | grep -E "^test result|FAILED|failed" | tr '\n' ' '); echo
echo "== doc"; (cargo test --offline --doc 2>&1 | grep -E "^test result" | tr '\n' ' '); echo
cp $src/demo.rs tests/seeded_demo.rs
echo "== demo with change"; (timeout 300 cargo test --offline --test seeded_demo -- --test-threads=1 2>&1 | grep -E "^test result|panicked|error: test" | head -5 | tr '\n' ' '); echo
git apply -R $src/patch.diff
echo "== demo without"; (timeout 300 cargo test --offline --test seeded_demo -- --test-threads=1 2>&1 | grep -E "^test result|panicked|error: test" | head -5 | tr '\n' ' '); echo
git apply $src/patch.diff; rm -f tests/seeded_demo.rs; rm -rf target
echo "worktree $w left with the change applied (no target/) for VERIF_REPO runs"
