"""MIR text parser (rustc -Zunpretty=mir -Zmir-opt-level=0) for engine M.

Produces, per function: params, local types, basic blocks of statements and a
terminator, in a small regular IR.  Anything that does not match the
supported shapes is kept as ('raw', text) and makes the encoder abort with
INCONCLUSIVE if it is ever reached on an encoded path.
"""
import os, re, shutil, subprocess, tempfile

REPO = os.environ.get("VERIF_REPO", "/repo")


def dump_mir(repo=REPO, features=None):
    base = tempfile.mkdtemp(prefix="kanal-verif-mir-", dir=os.environ.get("VERIF_TMP", "/tmp"))
    try:
        shutil.copytree(os.path.join(repo, "src"), os.path.join(base, "src"))
        for f in ("Cargo.lock", "README.md"):
            shutil.copy(os.path.join(repo, f), base)
        toml = open(os.path.join(repo, "Cargo.toml")).read()
        out, skip = [], False
        for line in toml.splitlines():
            if line.startswith("["):
                skip = line.startswith("[dev-dependencies]") or line.startswith("[[bench]]")
            if not skip:
                out.append(line)
        open(os.path.join(base, "Cargo.toml"), "w").write("\n".join(out) + "\n[workspace]\n")
        env = dict(os.environ)
        env["CARGO_NET_OFFLINE"] = "true"
        env.pop("RUSTUP_TOOLCHAIN", None)
        cmd = ["cargo", "+nightly", "rustc", "--offline", "--lib", "--target-dir", os.path.join(base, "target")]
        if features:
            cmd += ["--features", features]
        cmd += ["--", "-Zunpretty=mir", "-Zmir-opt-level=0", "-C", "overflow-checks=on", "-C", "debug-assertions=off"]
        p = subprocess.run(cmd, cwd=base, env=env, stdout=subprocess.PIPE, stderr=subprocess.PIPE, text=True, timeout=900)
        if p.returncode != 0 or "fn " not in p.stdout:
            raise RuntimeError("MIR dump failed: " + p.stderr[-2000:])
        return p.stdout
    finally:
        shutil.rmtree(base, ignore_errors=True)


class Fn:
    def __init__(self, name, header):
        self.name = name
        self.header = header
        self.params = []  # [(local, type)]
        self.ret_type = None
        self.locals = {}  # local -> type
        self.blocks = {}  # bb -> (stmts, terminator)
        self.cleanup = set()
        self.span = None

    def short(self):
        return re.sub(r"<impl at [^>]*>", "<impl>", self.name)


FN_RE = re.compile(r"^fn (.*?)\((.*)\) -> (.*) \{$")


def parse(text):
    fns = {}
    consts = {}
    lines = text.splitlines()
    i = 0
    while i < len(lines):
        line = lines[i]
        m = FN_RE.match(line)
        if m:
            name, params, ret = m.group(1), m.group(2), m.group(3)
            f = Fn(name, line)
            f.ret_type = ret.strip()
            for pm in re.finditer(r"(_\d+): ([^,]+(?:<[^>]*>)?[^,]*)", params):
                f.params.append((pm.group(1), pm.group(2).strip()))
            i += 1
            cur = None
            while i < len(lines) and lines[i] != "}":
                l = lines[i]
                s = l.strip()
                lm = re.match(r"let (?:mut )?(_\d+): (.*);$", s)
                if lm:
                    f.locals[lm.group(1)] = lm.group(2)
                bm = re.match(r"(bb\d+)( \(cleanup\))?: \{$", s)
                if bm:
                    cur = bm.group(1)
                    f.blocks[cur] = ([], None)
                    if bm.group(2):
                        f.cleanup.add(cur)
                elif cur is not None and s == "}":
                    cur = None
                elif cur is not None and s:
                    # multi-line statements do not occur at this pretty-printing level except long calls (single line)
                    stmts, term = f.blocks[cur]
                    if is_terminator(s):
                        f.blocks[cur] = (stmts, s)
                    else:
                        stmts.append(s)
                i += 1
            for (pl, pt) in f.params:
                f.locals[pl] = pt
            f.locals["_0"] = f.ret_type
            # several functions may share a pretty name (impl blocks): keep a list
            fns.setdefault(name, []).append(f)
        else:
            om = re.match(r"^const (.*?): (.*?) = const (-?\d+)_\w+;$", line)
            if om:
                consts[om.group(1)] = (om.group(2), ["_0 = const %s_x;" % om.group(3)])
            cm = re.match(r"^const (.*?): (.*?) = \{$", line)
            if cm:
                # evaluate simple constant bodies: `_0 = const N_T;` possibly via arithmetic on consts
                body = []
                j = i + 1
                while j < len(lines) and lines[j] != "}":
                    body.append(lines[j].strip())
                    j += 1
                consts[cm.group(1)] = (cm.group(2), body)
                i = j
        i += 1
    return fns, consts


def is_terminator(s):
    return (s.startswith("goto ->") or s.startswith("switchInt(") or s == "return;" or s == "unreachable;" or
            s.startswith("assert(") or s.startswith("drop(") or "-> [return:" in s or s.endswith("-> unwind continue;") or
            s == "resume;" or s.startswith("falseEdge") or s.startswith("falseUnwind") or "-> unwind" in s and "(" in s and "=" in s)


def find(fns, suffix, nth=0):
    """function whose pretty name ends with `suffix` (unique unless nth is given)"""
    c = [f for name, fl in fns.items() for f in fl if name.endswith(suffix)]
    if not c:
        raise KeyError("MIR function not found: " + suffix)
    return c


def const_value(consts, name):
    """integer value of a simple named constant (`const signal::LOCKED: u8 = { ... _0 = const 2_u8; ...}`)"""
    cands = [c for c in consts if c == name] or [c for c in consts if c.split("::")[-1] == name.split("::")[-1]]
    if len(cands) > 1:
        raise KeyError("ambiguous constant " + name)
    for cname in cands:
        ty, body = consts[cname]
        if True:
            env = {}
            for s in body:
                m = re.match(r"(_\d+) = const (-?\d+)_\w+;", s)
                if m:
                    env[m.group(1)] = int(m.group(2))
                    continue
                m = re.match(r"(_\d+) = (Shl|Shr|Add|Sub|Mul|Div)\((?:const (-?\d+)_\w+|(?:move|copy) (_\d+)), (?:const (-?\d+)_\w+|(?:move|copy) (_\d+))\);", s)
                if m:
                    a = int(m.group(3)) if m.group(3) is not None else env[m.group(4)]
                    b = int(m.group(5)) if m.group(5) is not None else env[m.group(6)]
                    op = m.group(2)
                    env[m.group(1)] = {"Shl": a << b, "Shr": a >> b, "Add": a + b, "Sub": a - b, "Mul": a * b, "Div": a // b if b else 0}[op]
                    continue
                m = re.match(r"(_\d+) = (?:move|copy) (_\d+);", s)
                if m and m.group(2) in env:
                    env[m.group(1)] = env[m.group(2)]
                    continue
                m = re.match(r"(_\d+) = const (\S+);", s)
                if m:
                    try:
                        env[m.group(1)] = const_value(consts, m.group(2))
                    except KeyError:
                        pass
            if "_0" in env:
                return env["_0"]
    raise KeyError(name)
