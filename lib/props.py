"""Instance tables: which harness instances decide which property, per tier.

An instance is one solver query (one #[kani::proof]).  Schedule position
(site), spurious wake-up plan, clock script and payload class are concrete
per instance (case split); payload bits, symbolic time (clock mode 0),
reported parallelism and choices inside the harness body are solver variables.
"""
from kengine import Inst

ACT = dict(
    SEND="A_SEND", TRY_SEND="A_TRY_SEND", TRY_SEND_OPT="A_TRY_SEND_OPT", TRY_SEND_RT="A_TRY_SEND_RT",
    TRY_SEND_OPT_RT="A_TRY_SEND_OPT_RT", SEND_TO="A_SEND_TIMEOUT", SEND_OPT_TO="A_SEND_OPT_TIMEOUT",
    ASEND="A_ASEND_START", RECV="A_RECV", TRY_RECV="A_TRY_RECV", TRY_RECV_RT="A_TRY_RECV_RT",
    RECV_TO="A_RECV_TIMEOUT", DRAIN="A_DRAIN", ARECV="A_ARECV_START", CLOSE_S="A_CLOSE_S",
    CLOSE_R="A_CLOSE_R", DROP_S="A_DROP_S", DROP_R="A_DROP_R", NOP="A_NOP", OBSERVE="A_OBSERVE",
    DROP_S_ASYNC="A_DROP_S", DROP_R_ASYNC="A_DROP_R",
)
DROPPY = ["TagS", "TagP", "TagL"]
PLAIN = ["u8", "u32", "usize", "Big", "Pad", "PadL"]
ZST = ["()", "ZA"]
ZDROP = ["ZD"]


def tname(t):
    return {"()": "unit"}.get(t, t).lower()


# (site, spur, clock, par) variants per kind of outer operation
UNTIMED_SITES = [("WAIT_ENTRY", 0, 0, 0), ("WAIT_SPIN", 0, 0, 0), ("WAIT_PRECAS", 0, 0, 0), ("PARK", 0, 0, 0),
                 ("PARK", 1, 0, 0)]
# timed operations: the clock is a concrete crossing script whenever a peer acts (symbolic time with a peer
# inside or after the timed wait loop makes the formula explode: measured 400 s - 12 min per query);
# symbolic time (clock 0) is kept for the queries without a peer
TIMED_SITES = [("WT_ENTRY", 0, 1, 1), ("WT_SPIN", 0, 3, 2), ("WT_LOOP", 0, 3, 1), ("WT_LOOP", 0, 4, 1),
               ("WT_EXIT", 0, 3, 1), ("TIMED_EXPIRED", 0, 1, 2), ("TIMED_PRECANCEL", 0, 3, 1)]
# recv_timeout reads the clock once more (early `now > deadline` test) before registering
TIMED_SITES_RECV = [("WT_ENTRY", 0, 3, 1), ("WT_SPIN", 0, 3, 2), ("WT_LOOP", 0, 4, 1),
                    ("WT_EXIT", 0, 3, 1), ("TIMED_EXPIRED", 0, 3, 2), ("TIMED_PRECANCEL", 0, 4, 1)]
SEND_OUTERS = ["SEND", "SEND_TO", "SEND_OPT_TO"]
RECV_OUTERS = ["RECV", "RECV_TO"]
RECV_PEERS = ["RECV", "TRY_RECV", "TRY_RECV_RT", "RECV_TO", "DRAIN", "ARECV"]
SEND_PEERS = ["SEND", "TRY_SEND", "TRY_SEND_OPT", "TRY_SEND_RT", "TRY_SEND_OPT_RT", "SEND_TO", "SEND_OPT_TO", "ASEND"]
KILL_FOR_SENDER = ["CLOSE_S", "CLOSE_R", "DROP_R", "DROP_R_ASYNC"]
KILL_FOR_RECEIVER = ["CLOSE_S", "CLOSE_R", "DROP_S", "DROP_S_ASYNC"]


def sites_for(outer):
    if outer in ("SEND", "RECV"):
        return UNTIMED_SITES
    return TIMED_SITES_RECV if outer == "RECV_TO" else TIMED_SITES


def timed_alone(T, cap, outer):
    """timed operation with nobody else acting: symbolic duration and symbolic clock"""
    return blocked(T, cap, outer, ("WT_ENTRY", 0, 0, 0), "NOP")


def blocked(T, cap, outer, sv, peer):
    site, spur, clock, par = sv
    if clock != 0 and peer in ("RECV_TO", "SEND_TO", "SEND_OPT_TO"):
        clock_ok = False  # a timed peer would consume positions of the concrete clock script
    name = "b_%s_c%d_%s_%s_s%dk%dp%d_%s" % (tname(T), cap, outer, site, spur, clock, par, peer)
    body = "blocked::<%s>(%d, %s, SITE_%s, %s, %d, %d, %d, %d);" % (T, cap, ACT[outer], site, ACT[peer], spur, clock, par,
                                                                     1 if peer.endswith("_ASYNC") else 0)
    covers = []
    return Inst(name.lower(), body, unwind=8, covers=covers,
                note="blocked %s on cap %d (%s), peer %s at site %s, spurious-plan %d, clock-mode %d, par %d" % (
                    outer, cap, T, peer, site, spur, clock, par))


def blocked_matrix(outers, peers_of, types, caps, full):
    """full: whole product; otherwise a diagonal that still visits every (outer, site-variant) and every peer"""
    out = []
    k = 0
    for outer in outers:
        svs = sites_for(outer)
        peers = peers_of(outer)
        if full:
            for sv in svs:
                for peer in peers:
                    if peer in ("NOP", "OBSERVE") and outer in ("SEND", "RECV"):
                        continue
                    if sv[2] != 0 and peer in ("RECV_TO", "SEND_TO", "SEND_OPT_TO"):
                        continue
                    for T in types:
                        for cap in caps:
                            out.append(blocked(T, cap, outer, sv, peer))
        else:
            n = max(len(svs), len(peers))
            for i in range(n):
                sv = svs[i % len(svs)]
                peer = peers[(i + k) % len(peers)]
                if peer in ("NOP", "OBSERVE") and outer in ("SEND", "RECV"):
                    peer = peers[0]
                if sv[2] != 0 and peer in ("RECV_TO", "SEND_TO", "SEND_OPT_TO"):
                    peer = peers[0]
                T = types[(i + k) % len(types)]
                cap = caps[(i + k) % len(caps)]
                out.append(blocked(T, cap, outer, sv, peer))
            k += 1
    return out


def async_waiter(T, cap, send_side, peer, repolls):
    name = "a_%s_c%d_%s_%s_r%d" % (tname(T), cap, "sf" if send_side else "rf", peer, repolls)
    body = "async_waiter::<%s>(%d, %s, %s, %d, %d);" % (T, cap, "true" if send_side else "false", ACT[peer], repolls,
                                                        1 if peer.endswith("_ASYNC") else 0)
    return Inst(name.lower(), body, unwind=8,
                note="pending %s future on cap %d (%s), %d spurious re-polls with symbolic wakers, then peer %s, then final poll" % (
                    "send" if send_side else "receive", cap, T, repolls, peer))


def async_matrix(types, caps, full, repoll_opts=(0, 1, 2)):
    out, k = [], 0
    for send_side in (True, False):
        peers = (RECV_PEERS + KILL_FOR_SENDER + ["NOP"]) if send_side else (SEND_PEERS + KILL_FOR_RECEIVER + ["NOP"])
        for i, peer in enumerate(peers):
            if full:
                for T in types:
                    for cap in caps:
                        for rp in repoll_opts:
                            out.append(async_waiter(T, cap, send_side, peer, rp))
            else:
                out.append(async_waiter(types[(i + k) % len(types)], caps[(i + k) % len(caps)], send_side, peer,
                                        repoll_opts[(i + k) % len(repoll_opts)]))
        k += 1
    return out


def repoll_done(T, send_side):
    return Inst(("p_done_%s_%s" % (tname(T), "sf" if send_side else "rf")).lower(),
                "repoll_done::<%s>(%s);" % (T, "true" if send_side else "false"), unwind=8, should_panic=True,
                note="polling a completed %s future again must panic (should_panic harness)" % ("send" if send_side else "receive"))


ABW_SITES = ["ABW_ENTRY", "ABW_SPIN", "ABW_SLEEP"]


def future_drop(T, cap, send_side, stage, site="ABW_ENTRY", fin=0, nth=0):
    name = "d_%s_c%d_%s_st%d_%s_f%d_n%d" % (tname(T), cap, "sf" if send_side else "rf", stage, site, fin, nth)
    body = "future_drop::<%s>(%d, %s, %d, SITE_%s, %d, %d);" % (T, cap, "true" if send_side else "false", stage, site, fin, nth)
    return Inst(name.lower(), body, unwind=8,
                note="%s future dropped at life stage %d (0 never polled,1 pending,2 claimed by split-phase peer finishing at %s with %s,3 completed unobserved,4 completed,5 as 2 with close() between claim and drop)" % (
                    "send" if send_side else "receive", stage, site, "terminate" if fin else "hand-off"))


def drop_matrix(types, caps, full):
    out, k = [], 0
    for send_side in (True, False):
        for stage in (0, 1, 3, 4):
            for j, T in enumerate(types if full else [types[k % len(types)]]):
                for cap in (caps if full else [caps[k % len(caps)]]):
                    out.append(future_drop(T, cap, send_side, stage))
            k += 1
        for (site, nth) in [(x, 0) for x in ABW_SITES] + [("ABW_SLEEP", 1)]:
            for fin in (0, 1):
                for T in (types if full else [types[k % len(types)]]):
                    out.append(future_drop(T, 0, send_side, 2, site, fin, nth))
                k += 1
        # claimed by a peer, then the channel is closed from the other side, then dropped
        for (site, nth) in [(x, 0) for x in ABW_SITES]:
            for fin in (0, 1):
                for T in (types if full else [types[k % len(types)]]):
                    out.append(future_drop(T, 0, send_side, 5, site, fin, nth))
                k += 1
    return out


def split(T, outer, s1, s2, fin, clock, spur=0):
    name = "s_%s_%s_%s_%s_f%d_k%d_s%d" % (tname(T), outer, s1, s2, fin, clock, spur)
    body = "split::<%s>(0, %s, SITE_%s, SITE_%s, %d, %d, %d);" % (T, ACT[outer], s1, s2, fin, clock, spur)
    return Inst(name.lower(), body, unwind=8,
                note="split-phase peer: claims the blocked %s at %s under the lock, %s at %s (clock script %d, spurious plan %d)" % (
                    outer, s1, "terminates" if fin else "hands off", s2, clock, spur))


def split_matrix(types, full, outers=("SEND", "RECV", "SEND_TO", "SEND_OPT_TO", "RECV_TO")):
    out, k = [], 0
    for outer in outers:
        if outer in ("SEND", "RECV"):
            combos = [("WAIT_ENTRY", s2, 0, sp) for s2, sp in (("WAIT_SPIN", 0), ("WAIT_PRECAS", 0), ("PARK", 0), ("PARK", 1))]
            combos += [("WAIT_SPIN", "PARK", 0, 0), ("WAIT_PRECAS", "PARK", 0, 0)]
        else:
            combos = [("WT_ENTRY", s2, 3, 0) for s2 in ("WT_LOOP", "WT_EXIT", "TIMED_EXPIRED", "TIMED_PRECANCEL", "WAIT_ENTRY",
                                                       "WAIT_SPIN", "WAIT_PRECAS", "PARK")]
            combos += [("WT_LOOP", "TIMED_PRECANCEL", 3, 0), ("WT_EXIT", "PARK", 3, 0), ("TIMED_EXPIRED", "WAIT_PRECAS", 3, 0)]
        for (s1, s2, clock, sp) in combos:
            if outer == "RECV_TO" and clock == 3:
                clock = 4  # recv_timeout reads the clock once more before registering (early `now > deadline` test)
            for fin in (0, 1):
                for T in (types if full else [types[k % len(types)]]):
                    out.append(split(T, outer, s1, s2, fin, clock, sp))
                k += 1
    return out


# ---- concrete call sequences (family Q) ----
# atom = (label, kind, future index, waker id, clone variant)
def _atoms():
    A = []
    for k in ("TRY_SEND", "TRY_SEND_OPT", "TRY_SEND_RT", "TRY_SEND_OPT_RT", "SEND", "SEND_TIMEOUT", "SEND_OPT_TIMEOUT",
              "TRY_RECV", "TRY_RECV_RT", "RECV", "RECV_TIMEOUT", "DRAIN", "DROP_S", "DROP_R", "CLOSE_S", "CLOSE_R",
              "CONVERT_S", "CONVERT_R", "STREAM_DROP"):
        A.append((k.lower(), "A_" + k, 0, 0, 0))
    A.append(("asend_start2", "A_ASEND_START", 2, 0, 0))
    A.append(("asend_drop2", "A_ASEND_DROP", 2, 0, 0))
    A.append(("asend_poll2w0", "A_ASEND_POLL", 2, 0, 0))
    A.append(("arecv_start2", "A_ARECV_START", 2, 0, 0))
    A.append(("arecv_drop2", "A_ARECV_DROP", 2, 0, 0))
    A.append(("arecv_poll2w0", "A_ARECV_POLL", 2, 0, 0))
    for f, w in ((0, 0), (1, 1)):
        A.append(("asend_start%d" % f, "A_ASEND_START", f, w, 0))
        A.append(("arecv_start%d" % f, "A_ARECV_START", f, w, 0))
        A.append(("asend_drop%d" % f, "A_ASEND_DROP", f, 0, 0))
        A.append(("arecv_drop%d" % f, "A_ARECV_DROP", f, 0, 0))
    for f, w in ((0, 0), (0, 1), (1, 1)):
        A.append(("asend_poll%dw%d" % (f, w), "A_ASEND_POLL", f, w, 0))
        A.append(("arecv_poll%dw%d" % (f, w), "A_ARECV_POLL", f, w, 0))
    A.append(("drop_s_async", "A_DROP_S", 0, 0, 1))
    A.append(("drop_r_async", "A_DROP_R", 0, 0, 1))
    A.append(("stream_start", "A_STREAM_START", 0, 0, 0))
    A.append(("stream_pollw0", "A_STREAM_POLL", 0, 0, 0))
    A.append(("stream_pollw1", "A_STREAM_POLL", 0, 1, 0))
    for d in (1, 3, 7):
        A.append(("rot_w%d" % d, "A_ROT_W", 0, 0, d))
    for d in (1, 2):
        A.append(("rot_q%d" % d, "A_ROT_Q", 0, 0, d))
    for d in range(4):
        A.append(("clone_s%d" % d, "A_CLONE_S", 0, 0, d))
        A.append(("clone_r%d" % d, "A_CLONE_R", 0, 0, d))
    return A


ATOMS = _atoms()
ATOM = {a[0]: a for a in ATOMS}


def _legal(seq):
    """cheap syntactic legality (handles / futures exist); semantic preconditions are assumed in the harness"""
    ls, lr = 1, 1
    sf, rf, st = [False, False, False], [False, False, False], False
    for (lab, k, f, w, d) in seq:
        if k in ("A_TRY_SEND", "A_TRY_SEND_OPT", "A_TRY_SEND_RT", "A_TRY_SEND_OPT_RT", "A_SEND", "A_SEND_TIMEOUT",
                 "A_SEND_OPT_TIMEOUT", "A_CLOSE_S"):
            if ls == 0:
                return False
        elif k in ("A_TRY_RECV", "A_TRY_RECV_RT", "A_RECV", "A_RECV_TIMEOUT", "A_DRAIN", "A_CLOSE_R"):
            if lr == 0:
                return False
        elif k == "A_CONVERT_S":
            if ls == 0 or any(sf):
                return False
        elif k == "A_CONVERT_R":
            if lr == 0 or any(rf) or st:
                return False
        elif k == "A_CLONE_S":
            if ls == 0 or ls >= 3:
                return False
            ls += 1
        elif k == "A_CLONE_R":
            if lr == 0 or lr >= 3:
                return False
            lr += 1
        elif k == "A_DROP_S":
            if ls == 0 or (ls == 1 and any(sf)):
                return False
            ls -= 1
        elif k == "A_DROP_R":
            if lr == 0 or (lr == 1 and (any(rf) or st)):
                return False
            lr -= 1
        elif k == "A_ASEND_START":
            if ls == 0 or sf[f]:
                return False
            sf[f] = True
        elif k == "A_ASEND_POLL":
            if not sf[f]:
                return False
        elif k == "A_ASEND_DROP":
            if not sf[f]:
                return False
            sf[f] = False
        elif k == "A_ARECV_START":
            if lr == 0 or rf[f]:
                return False
            rf[f] = True
        elif k == "A_ARECV_POLL":
            if not rf[f]:
                return False
        elif k == "A_ARECV_DROP":
            if not rf[f]:
                return False
            rf[f] = False
        elif k == "A_STREAM_START":
            if lr == 0 or st:
                return False
            st = True
        elif k == "A_STREAM_POLL":
            if not st:
                return False
        elif k == "A_STREAM_DROP":
            if not st:
                return False
            st = False
    return True


OBSERVERS = True  # set per property in _raw: observers after every call only where they are the subject


def seqc(T, cap, labels):
    seq = [ATOM[l] for l in labels]
    capn = "u" if cap is None else str(cap)
    mode = {True: 1, False: 0, 1: 1, 0: 0, 2: 2}[OBSERVERS]
    name = "q_%s_c%s_%s%s" % (tname(T), capn, "__".join(labels), {1: "", 0: "_noobs", 2: "_endobs"}[mode])
    ops = ", ".join("(%s, %d, %d, %d)" % (k, f, w, d) for (_, k, f, w, d) in seq)
    body = "seqc::<%s>(%s, &[%s], %d);" % (T, "None" if cap is None else "Some(%d)" % cap, ops, mode)
    i = Inst(name.lower(), body, unwind=max(14, len(seq) + 3),
             note="call sequence [%s] on capacity %s (%s): every result and the abstraction of the real state compared with the reference model" % (
                 ", ".join(labels), capn, T))
    i.vacuous_ok = True
    i.legal_cover = "sequence is legal"
    return i


def all_sequences(n, atoms=None):
    atoms = atoms or [a[0] for a in ATOMS if not a[0].startswith("rot_")]
    import itertools
    for labs in itertools.product(atoms, repeat=n):
        if _legal([ATOM[l] for l in labs]):
            yield list(labs)


CURATED = [
    # buffer / rendezvous basics
    ["try_send", "try_send", "try_recv", "try_recv", "try_recv"],
    ["send", "try_send_opt", "recv", "drain", "try_recv_rt"],
    ["try_send_rt", "try_send_opt_rt", "recv_timeout", "recv_timeout"],
    ["send_timeout", "send_opt_timeout", "try_recv", "send_timeout", "drain"],
    # pending senders refilled into the buffer, FIFO across buffer + wait list
    ["try_send", "asend_start0", "asend_start1", "try_recv", "try_recv", "asend_poll0w0", "try_recv", "asend_poll1w1"],
    ["asend_start0", "asend_start1", "drain", "asend_poll1w1", "asend_poll0w1"],
    ["asend_start0", "asend_poll0w1", "asend_poll0w0", "recv", "asend_poll0w0"],
    ["asend_start0", "asend_start1", "asend_drop0", "try_recv", "asend_poll1w1", "try_recv"],
    # pending receivers
    ["arecv_start0", "arecv_start1", "try_send", "send", "arecv_poll1w1", "arecv_poll0w0"],
    ["arecv_start0", "arecv_poll0w1", "try_send_opt", "arecv_poll0w1", "try_recv"],
    ["arecv_start0", "arecv_start1", "arecv_drop0", "try_send", "arecv_poll1w1"],
    ["arecv_start0", "send_timeout", "arecv_drop0", "try_recv"],
    # close / disconnect
    ["try_send", "asend_start0", "close_s", "asend_poll0w0", "try_recv", "close_r", "try_send", "drain"],
    ["arecv_start0", "close_r", "arecv_poll0w0", "recv_timeout", "send_timeout", "clone_s0", "clone_r1"],
    ["try_send", "clone_s1", "drop_s", "drop_s", "try_recv", "try_recv", "recv_timeout", "drain"],
    ["try_send", "clone_r2", "drop_r", "drop_r", "try_send", "send_timeout", "send_opt_timeout", "try_send_opt"],
    ["arecv_start0", "clone_s3", "drop_s", "drop_s", "arecv_poll0w0"],
    ["asend_start0", "clone_r0", "drop_r", "asend_poll0w1", "try_recv"],
    # handles
    ["clone_s0", "clone_s1", "drop_s", "convert_s", "clone_s2", "drop_s", "drop_s", "drop_s"],
    ["clone_r3", "convert_r", "clone_r1", "close_r", "drop_r", "clone_r0", "drop_r", "clone_s0"],
    ["clone_s2", "close_s", "clone_s3", "drop_s", "drop_s", "drop_s", "try_recv"],
    # stream
    ["stream_start", "try_send", "stream_pollw0", "stream_pollw1", "stream_pollw0", "try_send", "stream_pollw0", "drop_s",
     "stream_pollw1", "stream_pollw0"],
    ["try_send", "try_send", "stream_start", "stream_pollw0", "stream_pollw0", "close_s", "stream_pollw0", "stream_pollw1"],
    ["stream_start", "stream_pollw1", "stream_drop", "try_send", "try_recv"],
    ["asend_start0", "stream_start", "asend_poll0w0", "stream_pollw0", "asend_start1", "stream_pollw0", "asend_poll1w1"],
    # 25.. : three waiters, cancellation from the head / middle of the waiting list
    ["asend_start0", "asend_start1", "asend_start2", "asend_drop0", "try_recv", "try_recv"],
    ["asend_start0", "asend_start1", "asend_start2", "asend_drop1", "drain"],
    ["try_send", "asend_start0", "asend_start1", "asend_start2", "asend_drop0", "drain"],
    ["arecv_start0", "arecv_start1", "arecv_start2", "arecv_drop0", "try_send", "arecv_poll1w1"],
    ["arecv_start0", "arecv_start1", "arecv_start2", "arecv_drop1", "try_send", "arecv_poll0w0"],
    # 30.. : a timed-out operation behind / in front of other waiters removes exactly itself
    ["arecv_start0", "arecv_start1", "recv_timeout", "try_send", "arecv_poll0w0"],
    ["arecv_start0", "recv_timeout", "try_send", "arecv_poll0w0", "try_send"],
    ["asend_start0", "asend_start1", "send_timeout", "try_recv", "try_recv", "try_recv"],
    ["asend_start0", "send_opt_timeout", "try_recv", "asend_poll0w0", "try_recv"],
    # 34.. : async receive from a full buffer hands the freed place to the oldest blocked sender
    ["try_send", "asend_start0", "arecv_start0", "asend_poll0w0", "try_recv", "try_recv"],
    ["try_send", "asend_start0", "stream_start", "asend_poll0w0", "stream_pollw0", "stream_pollw0"],
    ["try_send", "try_send", "asend_start0", "asend_start1", "arecv_start0", "arecv_start1", "asend_poll0w0", "asend_poll1w1", "drain"],
    # 37.. : a pending operation is terminated and then dropped without another poll
    ["asend_start0", "close_r", "asend_drop0", "try_recv"],
    ["try_send", "asend_start0", "drop_r", "asend_drop0"],
    ["arecv_start0", "close_s", "arecv_drop0", "try_send"],
    ["asend_start0", "asend_start1", "close_s", "asend_drop1", "asend_poll0w0"],
]


def seq_quick(types, caps):
    out, k = [], 0
    for labs in all_sequences(1):
        for cap in caps:
            out.append(seqc(types[k % len(types)], cap, labs))
            k += 1
    for labs in CURATED:
        assert _legal([ATOM[l] for l in labs]), labs
        for cap in (0, 1):
            out.append(seqc(types[k % len(types)], cap, labs))
            k += 1
    return out


def canary():
    return Inst("canary_tagl", "canary::<TagL>();", unwind=8, canary=True, note="reachability canary: must FAIL")


def dedup(insts):
    seen, out = set(), []
    for i in insts:
        if i.name not in seen:
            seen.add(i.name)
            out.append(i)
    return out


def simple(name, body, note, unwind=8, **kw):
    return Inst(name.lower(), body, unwind=unwind, note=note, **kw)


def ptr_units():
    return [simple("u_ptr_%s" % tname(T), "ptr_unit::<%s>();" % T,
                   "KanalPtr encode/decode round trips (sender slot, receiver slot, inline owned, copy) for payload class %s, all bit patterns" % T)
            for T in ZST + ZDROP + PLAIN + DROPPY]


def poll_site(T, cap, send_side, site, peer, diff):
    return simple("ps_%s_c%d_%s_%s_%s_%s" % (tname(T), cap, "sf" if send_side else "rf", site, peer, "diffw" if diff else "samew"),
                  "poll_site::<%s>(%d, %s, SITE_%s, %s, %s);" % (T, cap, "true" if send_side else "false", site, ACT[peer], "true" if diff else "false"),
                  "pending %s future re-polled with %s waker while peer %s acts at %s inside that poll" % (
                      "send" if send_side else "receive", "another" if diff else "the same", peer, site))


def poll_sites(types, full):
    out, k = [], 0
    for send_side in (True, False):
        compl = "TRY_RECV" if send_side else "TRY_SEND"
        kill = "CLOSE_R" if send_side else "CLOSE_S"
        combos = [("POLL_PENDING", compl, False), ("POLL_PENDING", compl, True), ("POLL_EXISTS", compl, True),
                  ("REGISTER_WAKER", compl, True), ("REGISTER_WAKER", kill, True),
                  ("POLL_PENDING", kill, True), ("POLL_EXISTS", kill, True), ("POLL_PENDING", "NOP", True)]
        if full:
            combos += [("POLL_PENDING", "DRAIN" if send_side else "SEND", False), ("POLL_PENDING", kill, False),
                       ("POLL_EXISTS", "DROP_R" if send_side else "DROP_S", True)]
        for (site, peer, diff) in combos:
            for T in (types if full else [types[k % len(types)]]):
                for cap in ((0, 1) if full and send_side else (0,)):
                    out.append(poll_site(T, cap, send_side, site, peer, diff))
            k += 1
    return out


def poll_split(T, send_side, diff, site, fin, nth=0):
    return simple("pp_%s_%s_%s_%s_f%d_n%d" % (tname(T), "sf" if send_side else "rf", "diffw" if diff else "samew", site, fin, nth),
                  "poll_split::<%s>(%s, %s, SITE_%s, %d, %d);" % (T, "true" if send_side else "false", "true" if diff else "false", site, fin, nth),
                  "split-phase peer has claimed the pending %s future; re-poll with %s waker; peer %s at %s" % (
                      "send" if send_side else "receive", "another" if diff else "the same", "terminates" if fin else "hands off", site))


def poll_splits(types, full):
    out, k = [], 0
    for send_side in (True, False):
        for fin in (0, 1):
            out.append(poll_split(types[k % len(types)], send_side, False, "ABW_ENTRY", fin))
            k += 1
            for site in (ABW_SITES if full else [ABW_SITES[k % 3]]):
                for T in (types if full else [types[k % len(types)]]):
                    out.append(poll_split(T, send_side, True, site, fin))
                k += 1
            out.append(poll_split(types[k % len(types)], send_side, True, "ABW_SLEEP", fin, 1))
    return out


def stream_scripts(types, full):
    out = []
    for i, (cap, sp) in enumerate([(0, 0), (1, 1), (0, 2)] + ([(2, 1), (1, 2)] if full else [])):
        for T in (types if full else [types[i % len(types)]]):
            out.append(simple("st_%s_c%d_sp%d" % (tname(T), cap, sp), "stream_script::<%s>(%d, %d);" % (T, cap, sp),
                              "receive stream over three waits with %d spurious polls (symbolic wakers) in the second wait, then end" % sp, unwind=8))
    return out


def drain_states(types, full):
    combos = [(1, 1, 2, False, 1, 0), (0, 0, 1, True, 0, 2), (2, 2, 1, False, 0, 0), (1, 1, 0, True, 2, 1),
              (0, 0, 2, False, 3, 0), (2, 1, 0, False, 0, 3), (1, 0, 0, False, 1, 1), (1, 1, 1, True, 1, 0)]
    if full:
        combos += [(2, 2, 2, True, 2, 0), (0, 0, 2, True, 0, 0), (2, 0, 0, False, 0, 0), (1, 1, 2, True, 3, 2)]
    out = []
    for i, (cap, nbuf, na, so, prior, spare) in enumerate(combos):
        for T in (types if full else [types[i % len(types)]]):
            out.append(simple("n_drain_%s_c%d_b%d_a%d_%s_p%d_s%d" % (tname(T), cap, nbuf, na, "sync" if so else "nosync", prior, spare),
                              "drain_state::<%s>(%d, %d, %d, %s, %d, %d);" % (T, cap, nbuf, na, "true" if so else "false", prior, spare),
                              "drain_into on cap %d with %d buffered, %d pending send futures%s; vector has %d prior elements and %d spare" % (
                                  cap, nbuf, na, " and a parked sync sender" if so else "", prior, spare), unwind=9))
    out.append(simple("n_drain_closed", "drain_nothing::<TagL>(true);", "drain_into on a closed channel fails and takes nothing"))
    out.append(simple("n_drain_receivers", "drain_nothing::<TagP>(false);", "drain_into with only blocked receivers takes nothing"))
    return out


def rt_lockeds(types, full):
    combos = [(1, 1, 1), (0, 0, 2), (1, 0, 0), (2, 1, 0), (0, 0, 1), (2, 2, 1)]
    out = []
    for i, (cap, nbuf, w) in enumerate(combos):
        for T in (types if full else [types[i % len(types)]]):
            out.append(simple("n_rt_%s_c%d_b%d_w%d" % (tname(T), cap, nbuf, w), "rt_locked::<%s>(%d, %d, %d);" % (T, cap, nbuf, w),
                              "*_realtime variants (symbolic choice of the three) while another thread holds the internal lock; cap %d, %d buffered, waiter kind %d" % (cap, nbuf, w)))
    return out


def wake_windows(types, full):
    out, k = [], 0
    recv_outers = ["RECV", "TRY_RECV", "TRY_RECV_RT", "RECV_TO", "DRAIN", "ARECV"]
    send_outers = ["SEND", "TRY_SEND", "TRY_SEND_OPT", "TRY_SEND_RT", "TRY_SEND_OPT_RT", "SEND_TO", "SEND_OPT_TO", "ASEND"]
    for recv_side, outers, peers in ((True, recv_outers, ["TRY_SEND", "OBSERVE"]), (False, send_outers, ["TRY_RECV", "OBSERVE"])):
        for outer in outers:
            for peer in (peers if full else [peers[k % 2]]):
                for cap in ((0, 1, 2) if full else ([1, 2, 0][k % 3],)):
                    if not recv_side and cap == 2 and not full:
                        cap = 1
                    T = types[k % len(types)]
                    out.append(simple("w_%s_c%d_%s_%s_%s" % (tname(T), cap, "rs" if recv_side else "ss", outer, peer),
                                      "wake_window::<%s>(%d, %s, %s, %s);" % (T, cap, "true" if recv_side else "false", ACT[outer], ACT[peer]),
                                      "third party %s scheduled at the entry of the hand-off performed by %s (%s served; cap %d)" % (
                                          peer, outer, "pending sender" if recv_side else "pending receiver", cap)))
                    k += 1
    return out


# sequences that need a buffer of 2 (refill position is only visible then)
REFILL2 = [["try_send", "try_send", "asend_start0", rk, "try_recv", "try_recv"]
           for rk in ("try_recv", "try_recv_rt", "recv", "recv_timeout")] + [
    ["try_send", "try_send", "asend_start0", "arecv_start0", "try_recv", "try_recv"],
    ["try_send", "try_send", "asend_start0", "stream_start", "stream_pollw0", "stream_pollw0"],
    ["try_send", "try_send", "asend_start0", "asend_start1", "try_recv", "drain"],
]



# ---- pre-state generalisations and corner-state sequences (added after the third wave of seeded changes) ----
# close() on a channel one side of which is already gone
HALFCLOSE = [["try_send", "drop_r", "close_s", "try_send", "clone_s0", "try_send_opt"],
             ["try_send", "drop_s", "close_r", "try_recv", "clone_r0", "recv_timeout"],
             ["clone_s1", "drop_r", "close_s", "close_s", "drop_s"],
             ["arecv_start0", "drop_s", "close_r", "arecv_poll0w0", "close_r"]]
# waiting list ring wrapped around the end of its allocation (4 places for capacity >= 1, 8 for capacity 0):
# any history of served waiters leaves the ring at such a position
RING1 = [["rot_w3", "arecv_start0", "arecv_start1", "drop_s", "arecv_poll0w0", "arecv_poll1w1"],
         ["try_send", "rot_w3", "asend_start0", "asend_start1", "drop_r", "asend_poll0w0", "asend_poll1w1"],
         ["rot_w3", "arecv_start0", "arecv_start1", "close_s", "arecv_poll1w1", "arecv_poll0w0"],
         ["rot_w3", "arecv_start0", "arecv_start1", "arecv_drop1", "try_send", "arecv_poll0w0", "try_send"],
         ["try_send", "rot_w3", "asend_start0", "asend_start1", "drain", "asend_poll0w0", "asend_poll1w1"],
         ["try_send", "rot_w3", "asend_start0", "asend_start1", "asend_start2", "asend_drop1", "try_recv", "try_recv", "try_recv"],
         ["try_send", "rot_w3", "asend_start0", "asend_start1", "close_r", "asend_poll1w1", "asend_poll0w0"]]
RING0 = [["rot_w7", "arecv_start0", "arecv_start1", "drop_s", "arecv_poll0w0", "arecv_poll1w1"],
         ["rot_w7", "asend_start0", "asend_start1", "close_r", "asend_poll0w0", "asend_poll1w1"],
         ["rot_w7", "asend_start0", "asend_start1", "drain", "asend_poll0w0", "asend_poll1w1"],
         ["rot_w7", "asend_start0", "asend_start1", "drop_r", "asend_poll0w0", "asend_poll1w1"],
         ["rot_w7", "arecv_start0", "arecv_start1", "close_r", "arecv_poll0w0", "arecv_poll1w1"]]
# buffer ring wrapped (capacity 2, position 1)
QRING = [["rot_q1", "try_send", "try_send", "drain"],
         ["rot_q1", "try_send", "try_send", "try_recv", "try_send", "try_recv", "try_recv", "try_recv"],
         ["rot_q1", "try_send", "try_send", "close_s", "try_recv"],
         ["rot_q1", "try_send", "try_send", "drop_s", "try_recv", "try_recv", "try_recv"],
         ["rot_q1", "try_send", "try_send", "asend_start0", "try_recv", "asend_poll0w0", "drain"]]
# capacity 2, buffer neither empty nor full while the waiting-list direction flag is stale, then filled by X
# and blocked on by Y
STALE_FILL = ["send", "send_timeout", "send_opt_timeout", "try_send", "try_send_opt", "try_send_rt", "try_send_opt_rt", "asend_start0"]
STALE_BLOCK = ["send_timeout", "send_opt_timeout", "asend_start1"]
STALE2 = [["try_send", "try_send", "try_recv", x, y, "try_send", "try_recv"] + (["asend_poll1w1"] if y == "asend_start1" else [])
          for y in STALE_BLOCK for x in STALE_FILL]
# a non-blocking call meets a parked operation of its own side (must be refused / find nothing) or of the other side
TRYPARK = [["try_send", "asend_start0", v, "try_recv", "asend_poll0w0", "try_recv", "try_recv"]
           for v in ("try_send", "try_send_opt", "try_send_rt", "try_send_opt_rt")] + [
    ["arecv_start0", v, "try_send", "arecv_poll0w0", v] for v in ("try_recv", "try_recv_rt", "drain")] + [
    ["arecv_start0", v, "arecv_poll0w0", "try_recv"] for v in ("try_send", "try_send_opt", "try_send_rt", "try_send_opt_rt")]
# the waker is replaced while the operation is parked, then the peer reads / fills the slot (small payload classes keep
# the value inside the signal word)
REWAKE = [["asend_start0", "asend_poll0w1", "try_recv", "asend_poll0w1"],
          ["try_send", "asend_start0", "asend_poll0w1", "try_recv", "try_recv", "asend_poll0w1"],
          ["arecv_start0", "arecv_poll0w1", "try_send", "arecv_poll0w1"],
          ["asend_start0", "asend_poll0w1", "asend_poll0w0", "drain", "asend_poll0w0"]]
SMALLT = ["u8", "u32", "usize", "Pad", "TagS", "TagP", "TagL", "Big"]
# a send future only stays pending on a channel without room: capacity per sequence
REWAKE_AT = [(REWAKE[0], [0, 0]), (REWAKE[1], [1, 1]), (REWAKE[2], [0, 1]), (REWAKE[3], [0, 0])]


# ---- fourth wave ----
RKINDS = ["try_recv", "try_recv_rt", "recv", "recv_timeout"]
# two senders parked behind a full buffer; one receive of each kind must refill exactly one place
REFILL3 = [["try_send", "asend_start0", "asend_start1", rk, "try_recv", "try_recv", "try_recv"] for rk in RKINDS] + [
    ["try_send", "asend_start0", "asend_start1", "arecv_start0", "try_recv", "try_recv", "try_recv"],
    ["try_send", "asend_start0", "asend_start1", "stream_start", "try_recv", "try_recv", "try_recv"]]
# short form for the capacity property: the over-admission is visible right after the receive
REFILL3S = [x[:4] + ["try_recv"] for x in REFILL3]
# the head waiter replaces its waker while others wait behind it: it keeps its place
REWAKE2 = [["asend_start0", "asend_start1", "asend_poll0w1", "try_recv", "try_recv", "asend_poll0w1", "asend_poll1w1"],
           ["try_send", "asend_start0", "asend_start1", "asend_poll0w1", "drain", "asend_poll0w1", "asend_poll1w1"],
           ["arecv_start0", "arecv_start1", "arecv_poll0w1", "try_send", "arecv_poll0w1", "arecv_poll1w1", "try_send"]]
# every receive kind after the last sender went away with values still buffered; every send kind after the last receiver went
DISCBUF = [["try_send", "try_send", "drop_s", rk, "try_recv", "try_recv"]
           for rk in RKINDS + ["drain", "arecv_start0", "stream_start"]]
SKINDS = ["send", "send_timeout", "send_opt_timeout", "try_send_opt", "try_send_rt", "try_send_opt_rt", "asend_start0"]
DISCSEND = [["try_send", "drop_r", sk, "try_send"] for sk in SKINDS]
# every kind of operation begun after close
CLOSEDOPS = [["try_send", "close_s", rk, sk] for rk, sk in zip(RKINDS + ["drain", "arecv_start0", "stream_start"], SKINDS)]
# drain with two parked senders (with and without a buffered value)
DRAIN2_AT = None
DRAIN2 = [["asend_start0", "asend_start1", "drain", "asend_poll1w1", "asend_poll0w1", "drain"],
          ["try_send", "asend_start0", "asend_start1", "drain", "asend_poll0w0", "asend_poll1w1", "try_recv"]]
DRAIN2_AT = [(DRAIN2[0], [0]), (DRAIN2[1], [1, 0])]
REWAKE2_AT = [(REWAKE2[0], [0]), (REWAKE2[1], [1]), (REWAKE2[2], [0, 1])]


# every clone flavour (clone, clone_sync / clone_async, through as_async) after close and after the other side is gone:
# eight clone functions in six sequences
CLONEPACK_CLOSE = [["close_s", "clone_s1", "clone_s3", "clone_r1", "clone_r3", "try_send", "try_recv"],
                   ["close_r", "clone_s0", "clone_s2", "clone_r0", "clone_r2", "close_s"]]
CLONEPACK_DISC = [["try_send", "drop_s", "clone_r1", "clone_r3", "try_recv", "try_recv"],
                  ["drop_s", "clone_r0", "clone_r2", "try_recv"],
                  ["drop_r", "clone_s1", "clone_s3", "try_send"],
                  ["try_send", "drop_r", "clone_s0", "clone_s2", "try_send_opt"]]


def stateops():
    """systematic state x operation matrix: a prefix builds a channel state, one operation of every kind is applied,
    a suffix observes what is left (drains the buffer, polls the parked futures).  -> [(cap, labels)]"""
    states = [  # (name, cap, prefix, parked futures to poll afterwards)
        ("empty", 1, [], []),
        ("empty0", 0, [], []),
        ("partial", 2, ["try_send"], []),
        ("full", 1, ["try_send"], []),
        ("full2", 2, ["try_send", "try_send"], []),
        ("full_s1", 1, ["try_send", "asend_start0"], ["asend_poll0w0"]),
        ("zero_s1", 0, ["asend_start0"], ["asend_poll0w0"]),
        ("full_s2", 1, ["try_send", "asend_start0", "asend_start1"], ["asend_poll0w0", "asend_poll1w1"]),
        ("zero_s2", 0, ["asend_start0", "asend_start1"], ["asend_poll0w0", "asend_poll1w1"]),
        ("r1", 1, ["arecv_start0"], ["arecv_poll0w0"]),
        ("zero_r1", 0, ["arecv_start0"], ["arecv_poll0w0"]),
        ("r2", 1, ["arecv_start0", "arecv_start1"], ["arecv_poll0w0", "arecv_poll1w1"]),
        ("closed", 2, ["try_send", "close_s"], []),
        ("nosenders", 2, ["try_send", "clone_r0", "drop_s"], []),
        ("noreceivers", 2, ["try_send", "clone_s0", "drop_r"], []),
        ("stale_partial", 2, ["try_send", "try_send", "try_recv"], []),
        ("stale_empty", 1, ["arecv_start0", "arecv_drop0"], []),
        ("wrapped", 1, ["rot_w3", "arecv_start0", "arecv_start1"], ["arecv_poll0w0", "arecv_poll1w1"]),
    ]
    ops = ["send", "send_timeout", "send_opt_timeout", "try_send", "try_send_opt", "try_send_rt", "try_send_opt_rt", "asend_start2",
           "recv", "recv_timeout", "try_recv", "try_recv_rt", "drain", "arecv_start2", "stream_start",
           "close_s", "close_r", "drop_s", "drop_r", "clone_s1", "clone_r3", "convert_s", "convert_r"]
    out = []
    for (name, cap, pre, polls) in states:
        for op in ops:
            suf = list(polls)
            if op == "asend_start2":
                suf.append("asend_poll2w0") if "asend_poll2w0" in ATOM else None
            if op == "arecv_start2":
                suf.append("arecv_poll2w0") if "arecv_poll2w0" in ATOM else None
            if op == "stream_start":
                suf.append("stream_pollw0")
            labs = pre + [op] + ["try_recv", "try_send"] + suf + ["try_recv", "try_recv"]
            seq = [ATOM[l] for l in labs]
            # drop ops the syntactic pre-check rejects (handle / future already gone); what the harness assumes
            # away at run time shows up as a vacuous (not counted) query
            k = len(pre) + 1
            while not _legal(seq) and len(labs) > k:
                # remove the first suffix element that makes it illegal
                for j in range(k, len(labs)):
                    if not _legal([ATOM[l] for l in labs[:j + 1]]):
                        labs = labs[:j] + labs[j + 1:]
                        break
                seq = [ATOM[l] for l in labs]
            if _legal(seq) and len(labs) > len(pre):
                if _legal([ATOM[l] for l in pre + [op]]):
                    out.append((cap, labs, name, op))
    return out


def so_seqs(types, states=None, ops=None):
    out, k = [], 0
    for (cap, labs, name, op) in stateops():
        if (states is None or any(name.startswith(x) for x in states)) and (ops is None or op in ops):
            out.append(seqc(types[k % len(types)], cap, labs))
        k += 1
    return out


SENDOPS = ["send", "send_timeout", "send_opt_timeout", "try_send", "try_send_opt", "try_send_rt", "try_send_opt_rt", "asend_start2"]
RECVOPS = ["recv", "recv_timeout", "try_recv", "try_recv_rt", "drain", "arecv_start2", "stream_start"]


# packs: one sequence exercises every receive kind / every send kind in the same channel state
DISCBUF_PACK = [["try_send", "try_send", "try_send", "drop_s", "recv_timeout", "recv", "try_recv_rt", "drain"],
                ["try_send", "try_send", "try_send", "drop_s", "try_recv", "arecv_start0", "stream_start", "try_recv"]]
DISCSEND_PACK = [["try_send", "drop_r", "send", "send_timeout", "send_opt_timeout", "try_send_opt", "try_send_rt", "try_send_opt_rt", "asend_start0"]]
CLOSED_PACK = [["try_send", "close_s", "recv", "recv_timeout", "try_recv", "try_recv_rt", "drain", "arecv_start0", "stream_start"],
               ["try_send", "close_r", "send", "send_timeout", "send_opt_timeout", "try_send", "try_send_opt", "try_send_rt", "try_send_opt_rt", "asend_start0"]]


def zd_handoffs():
    """zero-sized droppable payload on the direct hand-off paths (receiver waits first) and the buffer path"""
    return [blocked("ZD", 0, "RECV", ("PARK", 0, 0, 0), "SEND"), blocked("ZD", 0, "RECV_TO", ("WT_ENTRY", 0, 3, 1), "TRY_SEND_OPT"),
            blocked("ZD", 1, "RECV", ("WAIT_SPIN", 0, 0, 0), "ASEND"), blocked("ZD", 0, "SEND", ("WAIT_ENTRY", 0, 0, 0), "RECV"),
            async_waiter("ZD", 0, False, "TRY_SEND", 0), async_waiter("ZD", 1, True, "DRAIN", 1)]


def pick(L, n, seed=0):
    """n evenly spread elements of L (deterministic)"""
    if len(L) <= n:
        return list(L)
    step = len(L) / float(n)
    return [L[int(i * step + seed) % len(L)] for i in range(n)]


def seqs(labels_list, types, caps):
    out, k = [], 0
    for labs in labels_list:
        for cap in caps:
            out.append(seqc(types[k % len(types)], cap, labs))
            k += 1
    return out


def seqs_at(pairs, types):
    """pairs: [(labels, caps)]"""
    out, k = [], 0
    for labs, caps in pairs:
        for cap in caps:
            out.append(seqc(types[k % len(types)], cap, labs))
            k += 1
    return out


def life_atoms():
    return ["clone_s0", "clone_s1", "clone_s2", "clone_s3", "clone_r0", "clone_r1", "clone_r2", "clone_r3", "drop_s", "drop_r",
            "close_s", "close_r", "convert_s", "convert_r"]


CUR = {  # curated sequences by theme (indices into CURATED)
    "basic": [0, 1, 2, 3], "fifo": [4, 5, 6, 7, 8], "recvq": [8, 9, 10, 11], "close": [12, 13], "disc": [14, 15, 16, 17],
    "handles": [18, 19, 20], "stream": [21, 22, 23, 24], "three": [25, 26, 27, 28, 29], "timedq": [30, 31, 32, 33],
    "refill": [34, 35, 36], "termdrop": [37, 38, 39, 40],
}


ASYNC_DROPS = [["try_send", "clone_s1", "drop_s_async", "drop_s_async", "try_recv", "try_recv", "recv_timeout"],
               ["arecv_start0", "drop_s_async", "arecv_poll0w0", "try_recv"],
               ["asend_start0", "clone_r2", "drop_r_async", "asend_poll0w0", "try_send"],
               ["try_send", "clone_r0", "drop_r_async", "drop_r", "clone_s0", "drop_s_async", "drop_s"]]


def clone_after():
    """every clone flavour after close / after the last handle of the other side went away"""
    out = []
    for d in range(4):
        for first in ("close_s", "close_r"):
            out.append([first, "clone_s%d" % d, "try_send", "close_s"])
            out.append([first, "clone_r%d" % d, "try_recv", "close_r"])
        out.append(["try_send", "drop_s", "clone_r%d" % d, "drop_r", "try_recv", "try_recv"])
        out.append(["drop_r", "clone_s%d" % d, "drop_s", "try_send"])
    return out


def cur(*themes):
    out = []
    for t in themes:
        out += [CURATED[i] for i in CUR[t]]
    return out


MIXED = DROPPY + ["u32", "Big", "Pad"]
SEQT = DROPPY + ["u32", "Big"]  # sequences: the padded class is slow there (measured: 900 s timeout) and adds nothing
ALLT = ZST + PLAIN + DROPPY


def _raw(prop, full, with_so=True):
    global OBSERVERS
    # len / is_full / counts / is_closed ... after every call: C18 (reference equivalence), C03, C08, C10, C11, C12
    # C18 (reference equivalence): after every call.  C03, C08, C10, C11, C12: after the last call of a sequence (the
    # abstraction function - buffer length, waiting list, counts, owners, len <= cap - is compared after every call anyway)
    OBSERVERS = 1 if prop == "C18" else (2 if prop in ("C03", "C08", "C10", "C11", "C12") else 0)
    B = lambda outers, peers, types, caps: blocked_matrix(outers, lambda o: peers, types, caps, full)
    L, SO = [], []
    if prop == "C01":
        L += seqs(DISCBUF_PACK, DROPPY, [None])
        L += B(SEND_OUTERS, RECV_PEERS, DROPPY, [0, 1])
        L += B(RECV_OUTERS, SEND_PEERS, DROPPY, [0, 1])
        L += async_matrix(DROPPY, [0, 1], full)
        L += split_matrix(DROPPY, full)
        L += seqs(cur("basic", "fifo", "recvq", "three", "refill", "timedq"), DROPPY, [0, 1] if not full else [0, 1, 2, None])
        CL = [i for i in drop_matrix(DROPPY, [0], full) if "_st2_" in i.name] + [i for i in poll_splits(DROPPY, full) if "diffw" in i.name]
        if not full:
            L = pick(L, 28) + pick(CL, 8, 3) + [i for i in CL if i.name.endswith("_n1")][:3] + zd_handoffs()[:4]
        else:
            L += CL + zd_handoffs()
    elif prop == "C02":
        SO += so_seqs(DROPPY, ["full_s", "zero_s", "partial", "full2"], RECVOPS) if full else []
        L += seqs(REFILL3, DROPPY, [1]) + seqs_at(REWAKE2_AT, DROPPY)
        L += seqs([RING1[5]], DROPPY, [1]) + seqs([QRING[1], QRING[4]], DROPPY, [2])
        L += seqs(cur("three", "timedq", "refill"), DROPPY, [0, 1])
        L += seqs(REFILL2, DROPPY, [2])
        L += seqs(cur("fifo", "recvq", "basic"), DROPPY, [0, 1, 2] if full else [1])
        L += seqs(cur("fifo"), DROPPY, [0, 2])
        L += drain_states(DROPPY, full)
        L += B(["SEND", "SEND_TO"], RECV_PEERS, DROPPY, [1])
        L += [future_drop(T, c, ss, 1) for T in DROPPY for c in (0, 1) for ss in (True, False)]
        if not full:
            L = seqs(cur("three", "timedq"), DROPPY, [0]) + seqs(REFILL2[:4], DROPPY, [2]) + pick(L, 24)
    elif prop == "C03":
        L += seqs([REFILL3[3], REWAKE2[1], DISCBUF[3], DRAIN2[1]], SEQT, [1])
        L += seqs(HALFCLOSE[:2] + [RING1[4], TRYPARK[2]], SEQT, [1]) + seqs([QRING[0], STALE2[1]], SEQT, [2])
        L += B(SEND_OUTERS, RECV_PEERS + KILL_FOR_SENDER + ["OBSERVE"], MIXED, [0, 1])
        L += B(RECV_OUTERS, SEND_PEERS + KILL_FOR_RECEIVER + ["OBSERVE"], MIXED, [0, 1])
        L += async_matrix(MIXED, [0, 1], full)
        L += seqs(CURATED, SEQT, [0, 1] if full else [1])
        WW = wake_windows(MIXED, full)
        if not full:
            L = pick(L, 22) + WW
        else:
            L += WW
    elif prop == "C04":
        L += ptr_units()
        RW = seqs_at(REWAKE_AT, SMALLT)
        L += B(["SEND", "SEND_TO"], ["RECV", "TRY_RECV", "DRAIN", "ARECV"], ZST + PLAIN, [0, 1])
        L += B(["RECV", "RECV_TO"], ["SEND", "TRY_SEND", "TRY_SEND_OPT", "ASEND"], ZST + PLAIN, [0, 1])
        A = async_matrix(ZST + PLAIN, [0, 1], full, repoll_opts=(0,))
        L += [i for i in A if "close" not in i.name and "drop" not in i.name and "nop" not in i.name]
        SP = split_matrix(["u32", "Big", "Pad"], full, outers=("RECV_TO", "SEND_TO", "RECV"))
        if not full:
            L = ptr_units() + pick(L[len(ptr_units()):], 20) + pick(SP, 8, 1)
        else:
            L += SP + RW
    elif prop == "C05":
        L += seqs(DISCSEND_PACK + [CLOSED_PACK[1]], DROPPY, [1])
        SO += so_seqs(DROPPY, ["closed", "noreceivers", "full", "zero_s"], SENDOPS) if full else []
        L += [i for i in poll_splits(DROPPY, full) if "_sf_diffw" in i.name and "_f1_" in i.name] + seqs(DISCSEND + CLOSEDOPS, DROPPY, [1])
        L += B(SEND_OUTERS, RECV_PEERS + KILL_FOR_SENDER, DROPPY, [0, 1])
        L += [timed_alone(T, c, o) for T in DROPPY for c in (0, 1) for o in ("SEND_TO", "SEND_OPT_TO")]
        A = async_matrix(DROPPY, [0, 1], full)
        L += [i for i in A if "_sf_" in i.name]
        D = drop_matrix(DROPPY, [0, 1], full)
        L += [i for i in D if "_sf_" in i.name]
        L += split_matrix(DROPPY, full, outers=("SEND", "SEND_TO", "SEND_OPT_TO"))
        L += seqs([["try_send", "try_send_opt", "try_send_rt", "try_send_opt_rt", "close_s"],
                   ["try_send_opt", "drop_r", "try_send_opt", "try_send", "send_opt_timeout"],
                   ["close_r", "try_send_opt_rt", "send_timeout", "send_opt_timeout", "asend_start0"]], DROPPY, [0, 1, 2])
        L += seqs(cur("termdrop", "timedq"), DROPPY, [0, 1])
        if not full:
            L = pick(L, 34) + zd_handoffs()[:4]
        else:
            L += zd_handoffs()
    elif prop == "C06":
        L += seqs(RING1[:3] + [RING1[6]], DROPPY, [1]) + seqs(RING0, DROPPY, [0])
        L += B(["RECV"], SEND_PEERS + KILL_FOR_RECEIVER, DROPPY, [0, 1])
        L += B(["SEND"], RECV_PEERS + KILL_FOR_SENDER, DROPPY, [0, 1])
        L += async_matrix(DROPPY, [0, 1], full)
        L += split_matrix(DROPPY, full, outers=("SEND", "RECV"))
        L += B(["SEND", "SEND_TO"], ["ARECV", "RECV", "TRY_RECV", "DRAIN"], DROPPY, [1])
        L += seqs(cur("refill"), DROPPY, [1, 2])
        if not full:
            L = pick(L, 36)
    elif prop == "C07":
        L += split_matrix(MIXED, full)
        D = drop_matrix(MIXED, [0], full)
        L += [i for i in D if "_st2_" in i.name or "_st5_" in i.name]
        L += poll_splits(MIXED, full)
        L += [i for i in poll_sites(MIXED, full) if "poll_exists" in i.name or "register_waker" in i.name]
        if not full:
            L = pick(L, 34)
    elif prop == "C08":
        SO += so_seqs(DROPPY, ["partial", "full", "zero_s", "stale", "empty0"], SENDOPS + RECVOPS[:4]) if full else []
        L += seqs(REFILL3S, DROPPY, [1, 2])
        L += seqs(STALE2, DROPPY, [2])
        L += seqs([["try_send", "try_send", "try_send", "try_recv", "try_send"],
                   ["try_send_opt", "try_send_rt", "send_timeout", "drain", "send"],
                   ["asend_start0", "try_send", "try_recv", "asend_poll0w0", "try_send_opt_rt"],
                   ["arecv_start0", "try_send", "try_send", "try_send", "arecv_poll0w0"]], DROPPY, [0, 1, 2, None])
        ZS = seqs([["try_send", "try_send", "try_send", "try_recv", "try_send"], ["try_send_opt", "try_send_rt", "try_send_opt_rt", "drain"],
                   ["try_send", "send_timeout", "asend_start0", "try_recv", "asend_poll0w0"]], ZST, [0, 1, 2])
        L += B(SEND_OUTERS, RECV_PEERS, DROPPY, [0, 1])
        A = async_matrix(DROPPY, [0, 1], full)
        L += [i for i in A if "_sf_" in i.name]
        WW = [i for i in wake_windows(DROPPY, full) if "try_send" in i.name.split("_")[-2:] or i.name.endswith("try_send")]
        if not full:
            L = pick(L, 22) + ZS[::2] + pick(WW, 5)
        else:
            L += ZS + WW
    elif prop == "C09":
        L += seqs(CLONEPACK_DISC, SEQT, [1])
        L += seqs([["try_send", "try_send", "convert_r", "convert_s", "drop_r", "drop_s"],
                   ["asend_start0", "convert_r", "recv", "asend_poll0w0"]], SEQT, [0, 2])
        L += B(["SEND", "SEND_TO"], ["ARECV"], MIXED, [0, 1])
        L += B(["RECV", "RECV_TO"], ["ASEND"], MIXED, [0, 1])
        A = async_matrix(MIXED, [0, 1], full)
        L += [i for i in A if any(p in i.name for p in ("_recv_r", "_send_r", "_try_recv_r", "_try_send_r", "_drain", "_send_to", "_recv_to"))]
        L += seqs(cur("handles") + [["convert_s", "convert_r", "try_send", "arecv_start0", "arecv_poll0w0"],
                                    ["clone_s1", "clone_r1", "drop_s", "drop_r", "asend_start0", "recv", "asend_poll0w0"],
                                    ["clone_s2", "clone_r3", "convert_s", "try_send", "stream_start", "stream_pollw0"]], SEQT, [0, 1])
        L += drain_states(MIXED, False)[:4]
        CA = seqs([c for c in clone_after() if not c[0].startswith("close")], SEQT, [1])
        if not full:
            L = pick(L, 26) + CA
        else:
            L += CA
    elif prop == "C10":
        L += seqs(CLOSED_PACK, DROPPY, [2, 1])
        SO += (so_seqs(DROPPY, ["closed"]) + so_seqs(DROPPY, None, ["close_s", "close_r"])) if full else []
        L += seqs(CLONEPACK_CLOSE, DROPPY, [1])
        L += seqs(CLOSEDOPS, DROPPY, [1, 2])
        L += seqs(HALFCLOSE, DROPPY, [0, 1]) + seqs([RING1[2], RING1[6]], DROPPY, [1]) + seqs([RING0[1], RING0[4]], DROPPY, [0])
        L += seqs([QRING[2]], DROPPY, [2])
        L += B(SEND_OUTERS, ["CLOSE_S", "CLOSE_R"], DROPPY, [0, 1])
        L += B(RECV_OUTERS, ["CLOSE_S", "CLOSE_R"], DROPPY, [0, 1])
        A = async_matrix(DROPPY, [0, 1], full)
        L += [i for i in A if "close" in i.name]
        L += [i for i in poll_sites(DROPPY, full) if "close" in i.name]
        L += seqs(cur("close") + [["close_s", "close_r", "try_send", "try_recv", "send_timeout", "recv_timeout", "drain"],
                                  ["try_send", "try_send", "close_r", "close_s", "asend_start0", "arecv_start0", "stream_start"],
                                  ["clone_s0", "close_s", "drop_s", "clone_r1", "try_send_opt", "try_recv_rt"]], DROPPY, [0, 1, 2])
        L += seqs(cur("termdrop"), DROPPY, [0, 1])
        CA = seqs([c for c in clone_after() if c[0].startswith("close")], DROPPY, [1])
        if not full:
            L = pick(L, 24) + CA
        else:
            L += CA
    elif prop == "C11":
        L += seqs(DISCBUF_PACK, DROPPY, [None, 2]) + seqs(DISCSEND_PACK, DROPPY, [1])
        SO += (so_seqs(DROPPY, ["nosenders", "noreceivers"]) + so_seqs(DROPPY, None, ["drop_s", "drop_r"])) if full else []
        L += seqs(CLONEPACK_DISC, DROPPY, [1, 2])
        L += seqs(DISCBUF, DROPPY, [2, None]) + seqs(DISCSEND, DROPPY, [1])
        L += seqs(RING1[:2], DROPPY, [1]) + seqs([RING0[0], RING0[3]], DROPPY, [0]) + seqs([QRING[3]], DROPPY, [2])
        L += seqs(HALFCLOSE[:2], DROPPY, [1])
        L += B(SEND_OUTERS, ["DROP_R", "DROP_R_ASYNC"], DROPPY, [0, 1])
        L += B(RECV_OUTERS, ["DROP_S", "DROP_S_ASYNC"], DROPPY, [0, 1])
        A = async_matrix(DROPPY, [0, 1], full)
        L += [i for i in A if "drop_" in i.name]
        L += seqs(cur("disc") + [["try_send", "try_send", "drop_s", "try_recv", "try_recv", "try_recv"],
                                 ["clone_s0", "drop_s", "try_recv", "drop_s", "try_recv", "recv_timeout"],
                                 ["clone_r0", "drop_r", "try_send", "drop_r", "try_send", "send_timeout", "try_send_opt"],
                                 ["try_send", "drop_s", "stream_start", "stream_pollw0", "stream_pollw0"]], DROPPY, [0, 1, 2])
        CA = seqs([c for c in clone_after() if not c[0].startswith("close")], DROPPY, [2]) + seqs(ASYNC_DROPS, DROPPY, [0, 1])
        if not full:
            L = pick(L, 26) + CA
        else:
            L += CA
    elif prop == "C12":
        SO += so_seqs(DROPPY, None, ["close_s", "close_r", "drop_s", "drop_r", "clone_s1", "clone_r3", "convert_s", "convert_r"]) if full else []
        L += seqs(CLONEPACK_CLOSE + CLONEPACK_DISC, DROPPY, [1])
        L += seqs(HALFCLOSE, DROPPY, [0, 1])
        la = life_atoms()
        L += seqs([[a] for a in la], DROPPY, [1])
        two = [s for s in all_sequences(2, la)]
        three = [s for s in all_sequences(3, ["clone_s0", "clone_r1", "clone_s2", "drop_s", "drop_r", "close_s", "convert_r"])]
        L += seqs(two if full else pick(two, 14), DROPPY, [1])
        L += seqs(three if full else pick(three, 8), DROPPY, [0])
        L += seqs(cur("handles"), DROPPY, [1])
        L += seqs([["clone_s1", "asend_start0", "clone_r2", "drop_r", "drop_s", "asend_poll0w0", "close_r", "clone_s0"]], DROPPY, [0])
        L += seqs(clone_after(), DROPPY, [1])
        L += seqs_at([(ASYNC_DROPS[0], [1]), (ASYNC_DROPS[1], [1]), (ASYNC_DROPS[2], [0]), (ASYNC_DROPS[3], [1])], DROPPY)
    elif prop == "C13":
        timed = ["SEND_TO", "SEND_OPT_TO", "RECV_TO"]
        L += [timed_alone(T, c, o) for T in DROPPY for c in (0, 1) for o in timed]
        L += B(["SEND_TO", "SEND_OPT_TO"], RECV_PEERS + KILL_FOR_SENDER, DROPPY, [0, 1])
        L += B(["RECV_TO"], SEND_PEERS + KILL_FOR_RECEIVER, DROPPY, [0, 1])
        L += split_matrix(DROPPY, full, outers=("SEND_TO", "SEND_OPT_TO", "RECV_TO"))
        TQ = seqs(cur("timedq"), DROPPY, [0, 1])
        if not full:
            L = pick(L, 32) + TQ
        else:
            L += TQ
    elif prop == "C14":
        SO += so_seqs(DROPPY, None, ["try_send", "try_send_opt", "try_send_rt", "try_send_opt_rt", "try_recv", "try_recv_rt", "drain"]) if full else []
        L += seqs_at(DRAIN2_AT, DROPPY)
        L += seqs(TRYPARK, DROPPY, [0, 1])
        L += rt_lockeds(DROPPY, full)
        L += seqs([["try_send", "try_send", "try_send_opt", "try_send_rt", "try_send_opt_rt"],
                   ["try_recv", "try_recv_rt", "drain", "try_send", "try_recv_rt", "drain"],
                   ["asend_start0", "try_send", "try_send_opt", "try_recv", "drain"],
                   ["arecv_start0", "try_recv", "drain", "try_send_rt", "try_send_opt_rt"],
                   ["drop_r", "try_send", "try_send_opt", "try_send_rt"], ["close_s", "try_recv", "try_recv_rt", "drain"]],
                  DROPPY, [0, 1, 2] if full else [0, 1])
        L += B(["SEND", "SEND_TO"], ["TRY_RECV", "TRY_RECV_RT", "DRAIN"], DROPPY, [0, 1])
        L += B(["RECV", "RECV_TO"], ["TRY_SEND", "TRY_SEND_OPT", "TRY_SEND_RT", "TRY_SEND_OPT_RT"], DROPPY, [0, 1])
        if not full:
            L = pick(L, 32)
    elif prop == "C15":
        L += seqs([RING1[3], RING1[5]], DROPPY, [1])
        L += drop_matrix(DROPPY, [0, 1], full)
        L += [future_drop(T, 0, ss, 2, site, fin, nth) for T in ("u32", "Big", "u8") for ss in (True, False)
              for site, fin, nth in (("ABW_ENTRY", 0, 0), ("ABW_SLEEP", 1, 1))]
        L += seqs([["asend_start0", "asend_drop0", "try_recv"], ["arecv_start0", "arecv_drop0", "try_send", "try_recv"],
                   ["asend_start0", "asend_start1", "asend_drop1", "drain", "asend_poll0w0"]], DROPPY, [0, 1])
        L += seqs(cur("termdrop", "three"), DROPPY, [0, 1])
        # every droppable size class through "value delivered into the future, future dropped unobserved"
        L += [future_drop(T, c, False, 3) for T in DROPPY for c in (0, 1)]
        L += [future_drop(T, 0, False, 2, "ABW_ENTRY", 0, 0) for T in DROPPY]
        if not full:
            L = pick(L, 48)
        # never-polled futures (life stage 0) of both sides
        L += [x for x in [future_drop(T, c, ss, 0) for ss in (False, True) for T, c in zip(DROPPY, (0, 1, 0))]
              if x.name not in set(i.name for i in L)]
    elif prop == "C16":
        L += seqs_at(REWAKE2_AT, DROPPY)
        L += seqs_at(REWAKE_AT, SMALLT)
        L += [repoll_done("TagL", True), repoll_done("TagP", False)]
        L += [async_waiter(T, c, ss, p, rp) for (T, c, ss, p, rp) in [
            ("TagL", 0, True, "TRY_RECV", 1), ("TagP", 1, True, "RECV", 2), ("TagS", 0, True, "CLOSE_R", 2), ("TagL", 1, True, "NOP", 2),
            ("TagL", 0, False, "TRY_SEND", 1), ("TagP", 1, False, "SEND", 2), ("TagS", 0, False, "DROP_S", 2), ("TagP", 0, False, "NOP", 2)]]
        L += poll_sites(DROPPY, full)
        L += poll_splits(DROPPY, full)
        L += stream_scripts(DROPPY, full)
        L += seqs(cur("stream"), DROPPY, [0, 1] if full else [1])
        # the last sender hands a value directly into the parked stream and leaves before the stream is polled again
        L += seqs([["stream_start", "try_send", "drop_s", "stream_pollw0", "stream_pollw0", "stream_pollw1"],
                   ["stream_start", "try_send", "close_s", "stream_pollw0", "stream_pollw0"],
                   ["try_send", "stream_start", "stream_pollw0", "try_send", "drop_s", "stream_pollw1", "stream_pollw0"]], DROPPY, [0, 1])
        if full:
            L += async_matrix(DROPPY, [0, 1], True)
    elif prop == "C18":
        singles = [s for s in all_sequences(1)]
        if full:
            L += seqs(singles, SEQT, [0, 1, 2, None])
            L += seqs(CURATED, SEQT, [0, 1, 2, None])
            L += seqs(REFILL2, SEQT, [2])
            L += pick(seqs([s for s in all_sequences(2)], SEQT, [1]), 60)
            SO += so_seqs(SEQT)
            L += seqs(DISCBUF_PACK, SEQT, [None, 2]) + seqs(DISCSEND_PACK + CLOSED_PACK, SEQT, [1, 2])
            L += seqs(HALFCLOSE + TRYPARK, SEQT, [0, 1]) + seqs_at(REWAKE_AT, SEQT) + seqs(RING1, SEQT, [1]) + seqs(RING0, SEQT, [0])
            L += seqs(QRING + STALE2, SEQT, [2])
            L += seqs(REFILL3 + DISCSEND + CLOSEDOPS + CLONEPACK_CLOSE + CLONEPACK_DISC, SEQT, [1]) + seqs_at(REWAKE2_AT + DRAIN2_AT, SEQT) + seqs(DISCBUF, SEQT, [2])
        else:
            k = 0
            SQ = DROPPY + ["u32", "Big"]
            for s_ in singles:
                L.append(seqc(SQ[k % len(SQ)], [0, 1, 2, None][k % 4], s_))
                k += 1
            # the other checks run the remaining curated sequences; here a spread of 18 + the refill / clone corner cases
            for s_ in pick(CURATED, 18):
                L.append(seqc(SQ[k % len(SQ)], [1, 0, 2][k % 3], s_))
                k += 1
            L += seqs(clone_after()[::5], SQ, [1])
            L += seqs(REFILL2[:3], SQ, [2])
    elif prop == "C19":
        SO += so_seqs(DROPPY, None, ["drain"]) if full else []
        L += seqs_at(DRAIN2_AT, DROPPY)
        L += seqs([RING1[4]], DROPPY, [1]) + seqs([RING0[2]], DROPPY, [0]) + seqs([QRING[0], QRING[4]], DROPPY, [2])
        L += drain_states(DROPPY, full)
        L += B(["SEND", "SEND_TO", "SEND_OPT_TO"], ["DRAIN"], DROPPY, [0, 1])
        L += [async_waiter(T, c, True, "DRAIN", rp) for (T, c, rp) in (("TagL", 0, 0), ("TagP", 1, 1), ("TagS", 1, 0))]
        L += seqs([["try_send", "try_send", "asend_start0", "drain", "asend_poll0w0", "drain"],
                   ["drain", "try_send", "drain", "close_s", "drain"],
                   ["arecv_start0", "drain", "try_send", "arecv_poll0w0", "drain"]], DROPPY, [1, 2] if full else [2])
    else:
        raise KeyError(prop)
    return dedup(L + (SO if with_so else []))


def instances(prop, tier):
    full = tier == "thorough"
    L = _raw(prop, full)
    if full:
        tmax = THOROUGH_MAX_BY_PROP.get(prop, THOROUGH_MAX)
        if len(L) > tmax:
            keep = [i for i in L if is_must(prop, i.name)][:tmax // 2]
            kn = set(i.name for i in keep)
            L = dedup(keep + pick([i for i in L if i.name not in kn], tmax - len(keep)))
    else:
        # quick tier: the corner cases that seeded defects need (MUST, taken from the full product) + an even
        # spread of the rest.  Sized so that a check stays far below 15 minutes on a loaded 16-core machine.
        allq = _raw(prop, True, with_so=False)  # the state x operation matrix is thorough-only
        must = sorted([i for i in allq if is_must(prop, i.name)], key=lambda i: must_rank(prop, i.name))
        # round-robin over the patterns (every pattern is represented before any gets a second instance),
        # at most QUICK_PER_PATTERN per pattern
        buckets = {}
        for i in must:
            buckets.setdefault(must_rank(prop, i.name), []).append(i)
        chosen = []
        for rnd in range(QUICK_PER_PATTERN):
            for r in sorted(buckets):
                if rnd < len(buckets[r]) and len(chosen) < QUICK_MUST_MAX:
                    chosen.append(buckets[r][rnd])
        names = set(i.name for i in chosen)
        rest = [i for i in L if i.name not in names]
        L = chosen + pick(rest, max(4, QUICK_N - len(chosen)))
    L.append(canary())
    return dedup(L)


QUICK_PER_PATTERN = 3
QUICK_N = 26
QUICK_MUST_MAX = 20
MUST = {
    "C01": [r"_abw_sleep_.*_n1$", r"^[ab]_zd_", r"asend_start2__asend_drop0", r"drop_s__recv_timeout__recv__try_recv_rt__drain", r"drop_s__try_recv__arecv_start0__stream_start"],
    "C02": [r"asend_start2__asend_drop|arecv_start2__arecv_drop", r"__recv_timeout__try_send__arecv_poll", r"_c2_try_send__try_send__asend_start0__(try_recv|recv)__",
            r"asend_start1__send_timeout__try_recv",
            r"rot_w3__asend_start0__asend_start1__asend_start2__asend_drop1", r"rot_q1__",
            r"asend_start0__asend_start1__(try_recv|try_recv_rt|recv|recv_timeout|arecv_start0|stream_start)__try_recv__try_recv__try_recv", r"asend_start1__asend_poll0w1__|arecv_start1__arecv_poll0w1__"],
    "C03": [r"^w_.*_rs_(recv|try_recv|recv_to|arecv)_(try_send|observe)$", r"^w_.*_ss_(send|try_send)_",
            r"rot_w3__asend_start0__asend_start1__drain", r"drop_[rs]__close_[sr]"],
    "C04": [r"^u_ptr_", r"^s_(u32|big|pad)_recv_to_wt_entry_(park|wait_entry)",
            r"^q_(u8|u32|usize|pad)_.*asend_poll0w1__try_recv"],
    "C05": [r"^d_.*_sf_st2_.*_f1_", r"__(close_r|drop_r)__asend_drop0", r"^b_zd", r"^s_.*send_opt_to_.*_(wait_entry|wait_precas|park)_f1_",
            r"^pp_.*_sf_diffw_.*_f1_", r"drop_r__send__send_timeout__send_opt_timeout|close_r__send__send_timeout"],
    "C06": [r"^b_.*_c1_send.*_arecv$", r"^b_.*_send_.*_drop_r(_async)?$", r"__arecv_start0__asend_poll0w0", r"^b_.*_recv_.*_drop_s(_async)?$",
            r"rot_w\d__"],
    "C07": [r"^d_(u32|big|pad)_c0_rf_st2_", r"_n1$", r"register_waker", r"poll_exists", r"_st5_"],
    "C08": [r"^q_(unit|za)_", r"^w_.*try_send$",
            r"__try_recv__(send_timeout__send_timeout|send_opt_timeout__send_opt_timeout|asend_start0__asend_start1)__",
            r"_c1_try_send__asend_start0__asend_start1__(recv_timeout|recv|try_recv_rt)__try_recv(_endobs)?$", r"_c1_try_send__asend_start0__asend_start1__(try_recv|arecv_start0|stream_start)__try_recv(_endobs)?$"],
    "C09": [r"drop_s__clone_r[01]__clone_r[23]", r"drop_r__clone_s[01]__clone_s[23]", r"_s0k\dp\d_arecv$", r"_s0k\dp\d_asend$",
            r"convert_r"],
    "C10": [r"close_[sr]__clone_s[01]__clone_s[23]__clone_r",
            r"drop_[rs]__close_[sr]", r"rot_w\d__.*__close_[sr]__", r"rot_q1__try_send__try_send__close_s",
            r"close_s__recv__recv_timeout__try_recv", r"close_r__send__send_timeout"],
    "C11": [r"drop_s__clone_r[01]__clone_r[23]", r"drop_r__clone_s[01]__clone_s[23]", r"drop_[sr]_async",
            r"rot_w\d__.*__drop_[sr]__", r"rot_q1__.*__drop_s",
            r"drop_s__recv_timeout__recv__try_recv_rt__drain", r"drop_s__try_recv__arecv_start0__stream_start", r"drop_r__send__send_timeout__send_opt_timeout"],
    "C12": [r"close_[sr]__clone_s[01]__clone_s[23]__clone_r", r"drop_s__clone_r[01]__clone_r[23]", r"drop_r__clone_s[01]__clone_s[23]", r"drop_[sr]_async",
            r"drop_[rs]__close_[sr]", r"convert_r"],
    "C13": [r"recv_timeout__try_send__arecv_poll", r"asend_start1__send_timeout__try_recv", r"^s_.*_(send_opt_to|send_to|recv_to)_wt_entry_(park|wait_precas|timed_precancel)_f1", r"_nop$",
            r"_send_to_wt_exit_.*_(close_r|drop_r)$", r"_send_opt_to_wt_exit_.*_(close_r|drop_r)$", r"_recv_to_wt_exit_.*_(close_s|drop_s)$"],
    "C14": [r"^n_rt_",
            r"asend_start0__try_send_(rt|opt_rt)__", r"asend_start0__try_send(_opt)?__try_recv", r"arecv_start0__(try_recv|try_recv_rt|drain)__try_send",
            r"asend_start0__asend_start1__drain"],
    "C15": [r"^d_tag[spl]_c0_rf_st3", r"^d_tagp_c0_rf_st2_abw_entry_f0", r"^d_.*_sf_st2_.*f1_n[01]$", r"_c0_.*__(close_r|drop_r|close_s)__a(send|recv)_drop[01]",
            r"_c0_asend_start0__asend_start1__asend_start2__asend_drop0",
            r"rot_w3__",
            r"_st5_.*_f0_", r"_st5_.*_f1_", r"^d_.*_rf_st0_", r"^d_.*_sf_st0_"],
    "C16": [r"^ps_.*_sf_register_waker_try_recv", r"^ps_.*_rf_register_waker_try_send", r"^pp_.*_diffw_abw_sleep_f0_n1", r"^pp_.*_diffw_abw_(entry|spin)_f[01]_n0", r"^st_.*_sp[12]", r"^p_done",
            r"asend_poll0w1__try_recv",
            r"asend_start1__asend_poll0w1__|arecv_start1__arecv_poll0w1__",
            r"stream_start__try_send__drop_s__stream_poll", r"stream_start__try_send__close_s__stream_poll"],
    "C18": [r"_c2_try_send__try_send__asend_start0__try_recv__",
            r"drop_[rs]__close_[sr]", r"rot_w3__arecv_start0__arecv_start1__drop_s", r"rot_q1__.*__try_recv__try_send", r"__try_recv__send_timeout__send_timeout__", r"asend_start0__try_send_rt__", r"_c1_convert_r$",
            r"_c1_try_send__asend_start0__asend_start1__recv_timeout__", r"_cu_.*drop_s__recv_timeout__recv__try_recv_rt__drain", r"_cu_.*drop_s__try_recv__arecv_start0__stream_start", r"drop_r__send__send_timeout__send_opt_timeout", r"close_s__recv__recv_timeout__try_recv", r"close_r__send__send_timeout", r"asend_start1__asend_poll0w1__try_recv", r"close_[sr]__clone_s[01]__clone_s[23]__clone_r"],
    "C19": [r"^n_drain_",
            r"rot_w\d__asend_start0__asend_start1__drain", r"rot_q1__try_send__try_send__(drain|asend_start0)",
            r"asend_start0__asend_start1__drain__asend_poll1w1"],
}


def must_rank(prop, name):
    import re
    for k, p in enumerate(MUST.get(prop, [])):
        if re.search(p, name):
            return k
    return 99


def is_must(prop, name):
    import re
    return any(re.search(p, name) for p in MUST.get(prop, []))


# thorough tier: at most this many solver queries per property (about an hour on 16 cores)
THOROUGH_MAX = 200
THOROUGH_MAX_BY_PROP = {"C18": 400}

K_PROPS = ["C01", "C02", "C03", "C04", "C05", "C06", "C07", "C08", "C09", "C10", "C11", "C12", "C13", "C14", "C15", "C16",
           "C18", "C19"]
