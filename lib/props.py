"""Instance tables: which harness instances decide which property, per tier.

An instance is one solver query (one #[kani::proof]).  Schedule position
(site), spurious wake-up plan, clock script and payload class are concrete
per instance (case split); payload bits, symbolic time (clock mode 0),
reported parallelism and choices inside the harness body are solver variables.
"""
from kengine import Inst

ACT = dict(
    SEND="A_SEND", TRY_SEND="A_TRY_SEND", TRY_SEND_OPT="A_TRY_SEND_OPT", TRY_SEND_RT="A_TRY_SEND_RT",
    TRY_SEND_OPT_RT="A_TRY_SEND_OPT_RT", SEND_TO="A_SEND_TIMEOUT", SEND_OPT_TO="A_SEND_OPT_TIMEOUT",
    ASEND="A_ASEND_START", RECV="A_RECV", TRY_RECV="A_TRY_RECV", TRY_RECV_RT="A_TRY_RECV_RT",
    RECV_TO="A_RECV_TIMEOUT", DRAIN="A_DRAIN", ARECV="A_ARECV_START", CLOSE_S="A_CLOSE_S",
    CLOSE_R="A_CLOSE_R", DROP_S="A_DROP_S", DROP_R="A_DROP_R", NOP="A_NOP",
)
DROPPY = ["TagS", "TagP", "TagL"]
PLAIN = ["u8", "u32", "usize", "Big", "Pad", "PadL"]
ZST = ["()", "ZA"]


def tname(t):
    return {"()": "unit"}.get(t, t).lower()


# (site, spur, clock, par) variants per kind of outer operation
UNTIMED_SITES = [("WAIT_ENTRY", 0, 0, 0), ("WAIT_SPIN", 0, 0, 0), ("WAIT_PRECAS", 0, 0, 0), ("PARK", 0, 0, 0),
                 ("PARK", 1, 0, 0)]
# timed operations: the clock is a concrete crossing script whenever a peer acts (symbolic time with a peer
# inside or after the timed wait loop makes the formula explode: measured 400 s - 12 min per query);
# symbolic time (clock 0) is kept for the queries without a peer
TIMED_SITES = [("WT_ENTRY", 0, 1, 1), ("WT_SPIN", 0, 3, 2), ("WT_LOOP", 0, 3, 1), ("WT_LOOP", 0, 4, 1),
               ("WT_EXIT", 0, 3, 1), ("TIMED_EXPIRED", 0, 1, 2), ("TIMED_PRECANCEL", 0, 3, 1)]
# recv_timeout reads the clock once more (early `now > deadline` test) before registering
TIMED_SITES_RECV = [("WT_ENTRY", 0, 3, 1), ("WT_SPIN", 0, 3, 2), ("WT_LOOP", 0, 4, 1),
                    ("WT_EXIT", 0, 3, 1), ("TIMED_EXPIRED", 0, 3, 2), ("TIMED_PRECANCEL", 0, 4, 1)]
SEND_OUTERS = ["SEND", "SEND_TO", "SEND_OPT_TO"]
RECV_OUTERS = ["RECV", "RECV_TO"]
RECV_PEERS = ["RECV", "TRY_RECV", "TRY_RECV_RT", "RECV_TO", "DRAIN", "ARECV"]
SEND_PEERS = ["SEND", "TRY_SEND", "TRY_SEND_OPT", "TRY_SEND_RT", "TRY_SEND_OPT_RT", "SEND_TO", "SEND_OPT_TO", "ASEND"]
KILL_FOR_SENDER = ["CLOSE_S", "CLOSE_R", "DROP_R"]
KILL_FOR_RECEIVER = ["CLOSE_S", "CLOSE_R", "DROP_S"]


def sites_for(outer):
    if outer in ("SEND", "RECV"):
        return UNTIMED_SITES
    return TIMED_SITES_RECV if outer == "RECV_TO" else TIMED_SITES


def timed_alone(T, cap, outer):
    """timed operation with nobody else acting: symbolic duration and symbolic clock"""
    return blocked(T, cap, outer, ("WT_ENTRY", 0, 0, 0), "NOP")


def blocked(T, cap, outer, sv, peer):
    site, spur, clock, par = sv
    if clock != 0 and peer in ("RECV_TO", "SEND_TO", "SEND_OPT_TO"):
        clock_ok = False  # a timed peer would consume positions of the concrete clock script
    name = "b_%s_c%d_%s_%s_s%dk%dp%d_%s" % (tname(T), cap, outer, site, spur, clock, par, peer)
    body = "blocked::<%s>(%d, %s, SITE_%s, %s, %d, %d, %d);" % (T, cap, ACT[outer], site, ACT[peer], spur, clock, par)
    covers = []
    return Inst(name.lower(), body, unwind=8, covers=covers,
                note="blocked %s on cap %d (%s), peer %s at site %s, spurious-plan %d, clock-mode %d, par %d" % (
                    outer, cap, T, peer, site, spur, clock, par))


def blocked_matrix(outers, peers_of, types, caps, full):
    """full: whole product; otherwise a diagonal that still visits every (outer, site-variant) and every peer"""
    out = []
    k = 0
    for outer in outers:
        svs = sites_for(outer)
        peers = peers_of(outer)
        if full:
            for sv in svs:
                for peer in peers:
                    if peer == "NOP" and outer in ("SEND", "RECV"):
                        continue
                    if sv[2] != 0 and peer in ("RECV_TO", "SEND_TO", "SEND_OPT_TO"):
                        continue
                    for T in types:
                        for cap in caps:
                            out.append(blocked(T, cap, outer, sv, peer))
        else:
            n = max(len(svs), len(peers))
            for i in range(n):
                sv = svs[i % len(svs)]
                peer = peers[(i + k) % len(peers)]
                if peer == "NOP" and outer in ("SEND", "RECV"):
                    peer = peers[0]
                if sv[2] != 0 and peer in ("RECV_TO", "SEND_TO", "SEND_OPT_TO"):
                    peer = peers[0]
                T = types[(i + k) % len(types)]
                cap = caps[(i + k) % len(caps)]
                out.append(blocked(T, cap, outer, sv, peer))
            k += 1
    return out


def async_waiter(T, cap, send_side, peer, repolls):
    name = "a_%s_c%d_%s_%s_r%d" % (tname(T), cap, "sf" if send_side else "rf", peer, repolls)
    body = "async_waiter::<%s>(%d, %s, %s, %d);" % (T, cap, "true" if send_side else "false", ACT[peer], repolls)
    return Inst(name.lower(), body, unwind=8,
                note="pending %s future on cap %d (%s), %d spurious re-polls with symbolic wakers, then peer %s, then final poll" % (
                    "send" if send_side else "receive", cap, T, repolls, peer))


def async_matrix(types, caps, full, repoll_opts=(0, 1, 2)):
    out, k = [], 0
    for send_side in (True, False):
        peers = (RECV_PEERS + KILL_FOR_SENDER + ["NOP"]) if send_side else (SEND_PEERS + KILL_FOR_RECEIVER + ["NOP"])
        for i, peer in enumerate(peers):
            if full:
                for T in types:
                    for cap in caps:
                        for rp in repoll_opts:
                            out.append(async_waiter(T, cap, send_side, peer, rp))
            else:
                out.append(async_waiter(types[(i + k) % len(types)], caps[(i + k) % len(caps)], send_side, peer,
                                        repoll_opts[(i + k) % len(repoll_opts)]))
        k += 1
    return out


def repoll_done(T, send_side):
    return Inst(("p_done_%s_%s" % (tname(T), "sf" if send_side else "rf")).lower(),
                "repoll_done::<%s>(%s);" % (T, "true" if send_side else "false"), unwind=8, should_panic=True,
                note="polling a completed %s future again must panic (should_panic harness)" % ("send" if send_side else "receive"))


ABW_SITES = ["ABW_ENTRY", "ABW_SPIN", "ABW_SLEEP"]


def future_drop(T, cap, send_side, stage, site="ABW_ENTRY", fin=0):
    name = "d_%s_c%d_%s_st%d_%s_f%d" % (tname(T), cap, "sf" if send_side else "rf", stage, site, fin)
    body = "future_drop::<%s>(%d, %s, %d, SITE_%s, %d);" % (T, cap, "true" if send_side else "false", stage, site, fin)
    return Inst(name.lower(), body, unwind=8,
                note="%s future dropped at life stage %d (0 never polled,1 pending,2 claimed by split-phase peer finishing at %s with %s,3 completed unobserved,4 completed)" % (
                    "send" if send_side else "receive", stage, site, "terminate" if fin else "hand-off"))


def drop_matrix(types, caps, full):
    out, k = [], 0
    for send_side in (True, False):
        for stage in (0, 1, 3, 4):
            for j, T in enumerate(types if full else [types[k % len(types)]]):
                for cap in (caps if full else [caps[k % len(caps)]]):
                    out.append(future_drop(T, cap, send_side, stage))
            k += 1
        for site in ABW_SITES:
            for fin in (0, 1):
                for T in (types if full else [types[k % len(types)]]):
                    out.append(future_drop(T, 0, send_side, 2, site, fin))
                k += 1
    return out


def split(T, outer, s1, s2, fin, clock, spur=0):
    name = "s_%s_%s_%s_%s_f%d_k%d_s%d" % (tname(T), outer, s1, s2, fin, clock, spur)
    body = "split::<%s>(0, %s, SITE_%s, SITE_%s, %d, %d, %d);" % (T, ACT[outer], s1, s2, fin, clock, spur)
    return Inst(name.lower(), body, unwind=8,
                note="split-phase peer: claims the blocked %s at %s under the lock, %s at %s (clock script %d, spurious plan %d)" % (
                    outer, s1, "terminates" if fin else "hands off", s2, clock, spur))


def split_matrix(types, full, outers=("SEND", "RECV", "SEND_TO", "SEND_OPT_TO", "RECV_TO")):
    out, k = [], 0
    for outer in outers:
        if outer in ("SEND", "RECV"):
            combos = [("WAIT_ENTRY", s2, 0, sp) for s2, sp in (("WAIT_SPIN", 0), ("WAIT_PRECAS", 0), ("PARK", 0), ("PARK", 1))]
            combos += [("WAIT_SPIN", "PARK", 0, 0), ("WAIT_PRECAS", "PARK", 0, 0)]
        else:
            combos = [("WT_ENTRY", s2, 3, 0) for s2 in ("WT_LOOP", "WT_EXIT", "TIMED_EXPIRED", "TIMED_PRECANCEL", "WAIT_ENTRY",
                                                       "WAIT_SPIN", "WAIT_PRECAS", "PARK")]
            combos += [("WT_LOOP", "TIMED_PRECANCEL", 3, 0), ("WT_EXIT", "PARK", 3, 0), ("TIMED_EXPIRED", "WAIT_PRECAS", 3, 0)]
        for (s1, s2, clock, sp) in combos:
            for fin in (0, 1):
                for T in (types if full else [types[k % len(types)]]):
                    out.append(split(T, outer, s1, s2, fin, clock, sp))
                k += 1
    return out


ALPHA = {"nb": 0, "timed": 1, "life": 2, "async_s": 3, "async_r": 4, "stream": 5, "mix": 6}
ALPHA_LEN = {"nb": 9, "timed": 6, "life": 9, "async_s": 7, "async_r": 7, "stream": 6, "mix": 10}
ALPHA_KINDS = {
    "nb": ["A_TRY_SEND", "A_TRY_SEND_OPT", "A_TRY_SEND_RT", "A_TRY_SEND_OPT_RT", "A_TRY_RECV", "A_TRY_RECV_RT", "A_DRAIN", "A_SEND", "A_RECV"],
    "timed": ["A_SEND_TIMEOUT", "A_SEND_OPT_TIMEOUT", "A_RECV_TIMEOUT", "A_TRY_SEND", "A_TRY_RECV", "A_CLOSE_S"],
    "life": ["A_CLONE_S", "A_CLONE_R", "A_DROP_S", "A_DROP_R", "A_CLOSE_S", "A_CLOSE_R", "A_CONVERT_S", "A_CONVERT_R", "A_TRY_SEND"],
    "async_s": ["A_ASEND_START", "A_ASEND_POLL", "A_ASEND_DROP", "A_TRY_RECV", "A_DRAIN", "A_CLOSE_R", "A_DROP_R"],
    "async_r": ["A_ARECV_START", "A_ARECV_POLL", "A_ARECV_DROP", "A_TRY_SEND", "A_SEND", "A_CLOSE_S", "A_DROP_S"],
    "stream": ["A_STREAM_START", "A_STREAM_POLL", "A_STREAM_DROP", "A_TRY_SEND", "A_DROP_S", "A_CLOSE_S"],
    "mix": ["A_TRY_SEND", "A_TRY_RECV", "A_ASEND_START", "A_ASEND_POLL", "A_ARECV_START", "A_ARECV_POLL", "A_DRAIN", "A_DROP_S", "A_DROP_R", "A_CLOSE_S"],
}


def seq(T, cap, n, al, first=None):
    capn = "u" if cap is None else str(cap)
    name = "q_%s_c%s_n%d_%s%s" % (tname(T), capn, n, al, "" if first is None else "_" + first[2:])
    body = "seq::<%s>(%s, %d, %d, %s);" % (T, "None" if cap is None else "Some(%d)" % cap, n, ALPHA[al],
                                          "255" if first is None else first)
    return Inst(name.lower(), body, unwind=10,
                covers=[],
                note="all sequences of %d calls from alphabet '%s' %s on capacity %s (%s), each call and the abstraction of the real state compared with the reference model" % (
                    n, al, ("(first call fixed to %s)" % first) if first else "", capn, T))


def seq_matrix(alphas, n, types, caps, shard_first=False):
    out, k = [], 0
    for al in alphas:
        for cap in caps:
            T = types[k % len(types)]
            k += 1
            if shard_first:
                for first in ALPHA_KINDS[al]:
                    out.append(seq(T, cap, n, al, first))
            else:
                out.append(seq(T, cap, n, al))
    return out


def canary():
    return Inst("canary_tagl", "canary::<TagL>();", unwind=8, canary=True, note="reachability canary: must FAIL")


def dedup(insts):
    seen, out = set(), []
    for i in insts:
        if i.name not in seen:
            seen.add(i.name)
            out.append(i)
    return out


def instances(prop, tier):
    full = tier == "thorough"
    L = []
    if prop == "C05":
        L += blocked_matrix(SEND_OUTERS, lambda o: RECV_PEERS + KILL_FOR_SENDER + ["NOP"], DROPPY, [0, 1], full)
        L += blocked_matrix(RECV_OUTERS, lambda o: SEND_PEERS, DROPPY, [0, 1], full)
    else:
        raise KeyError(prop)
    L.append(canary())
    return dedup(L)
