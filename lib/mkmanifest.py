#!/usr/bin/env python3
"""Regenerates /verif/MANIFEST.json from the table below (single source of truth)."""
import json, os
HERE = os.path.dirname(os.path.dirname(os.path.abspath(__file__)))
K_NOTE = ("Trusted: Kani 0.68 / CBMC 6.11 / CaDiCaL, rustc MIR semantics of Kani's pinned toolchain, Kani's sequential model of atomics. "
          "Environment model (crate::verif std shim): logical threads with park tokens, virtual clock, parallelism in {1,2}; "
          "VecDeque::grow assumed unreachable (no buffer reallocation); contended lock asserted unreachable (critical sections atomic: premise from C17). "
          "Schedules explored: nesting of complete operations at concrete hook sites + one split-phase peer; everything else is outside the claim.")
CLAIMED = {
    "C05": ("Bounded symbolic check (Kani/CBMC) of drop-exactly-once on the real code: every send variant x outcome, ghost drop counters per tagged payload",
            "Kani/CBMC bounded model checking of the compiled crate, sequentialised concurrency"),
}
NA = {}
props = [json.loads(l) for l in open(os.path.join(HERE, "properties.jsonl"))]
checks, na = [], []
for p in props:
    pid = p["id"]
    if pid in CLAIMED:
        text, tech = CLAIMED[pid]
        checks.append({
            "property_id": pid,
            "quick_cmd": "./check %s --tier quick" % pid,
            "thorough_cmd": "./check %s --tier thorough" % pid,
            "evidence_file": "evidence/%s.json" % pid,
            "replay_cmd_template": "./check %s --replay {path}" % pid,
            "engine": "K",
            "level_claimed": {"category": "other", "text": text + ". A pass means: the assertions hold for every value of the solver variables within the stated bounds; nothing is claimed outside them.",
                              "design_ref": "DESIGN.md section 4 (%s)" % pid},
            "level_note": K_NOTE,
            "technique": tech,
        })
    else:
        na.append({"property_id": pid, "reason": NA.get(pid, "check not built yet (work in progress in this session); no claim is made")})
m = {
    "version": 1,
    "setup_cmd": "python3 -m compileall -q lib check >/dev/null 2>&1; true",
    "hooks": {
        "guard": "cargo feature `verif` (cfg(feature = \"verif\"))",
        "enable": "checks copy /repo to a scratch directory, overlay kani/verif.rs + kani/verif/ as src/verif*, and run `cargo kani --features verif -Z stubbing`",
        "baseline_off_cmd": "cd /repo && cargo test --workspace --no-fail-fast --offline",
        "source_commits": ["3170146"],
        "add_only": True,
    },
    "engines": [
        {"name": "K", "path": "lib/kengine.py + kani/", "serves_properties": sorted(CLAIMED),
         "kind_free_text": "Kani 0.68 / CBMC 6.11 bounded model checking of the compiled kanal crate; in-crate proof harnesses generated per run; concurrency sequentialised through hook sites"},
    ],
    "checks": checks,
    "not_applicable": na,
    "notes": "See DESIGN.md. Exit codes: 0 pass, 1 replayed violation, 2 inconclusive.",
}
json.dump(m, open(os.path.join(HERE, "MANIFEST.json"), "w"), indent=1)
print("checks:", len(checks), "n/a:", len(na))
