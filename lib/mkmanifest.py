#!/usr/bin/env python3
"""Regenerates /verif/MANIFEST.json from the table below (single source of truth)."""
import json, os
HERE = os.path.dirname(os.path.dirname(os.path.abspath(__file__)))
K_NOTE = ("Trusted: Kani 0.68 / CBMC 6.11 / CaDiCaL, rustc MIR semantics of Kani's pinned toolchain, Kani's sequential model of atomics. "
          "Environment model (crate::verif std shim): logical threads with park tokens, virtual clock, parallelism in {1,2}; "
          "VecDeque::grow assumed unreachable (no buffer reallocation); contended lock asserted unreachable (critical sections atomic: premise from C17). "
          "Schedules explored: nesting of complete operations at concrete hook sites + one split-phase peer; everything else is outside the claim.")
KM = "Kani/CBMC bounded model checking of the compiled crate (sequentialised concurrency) + MIR->SMT interleaving BMC with happens-before (z3)"
KO = "Kani/CBMC bounded model checking of the compiled crate, sequentialised concurrency"
M_NOTE = ("Engine M trusted base: z3 (cvc5 cross-check on fast queries), the MIR subset semantics encoded in lib/mirbmc.py (validated by mutation), rustc nightly's MIR dump. "
          "Atomics: interleaving (SC) values + C11 happens-before (release sequences, acquire fences); park/unpark synchronise; yield/sleep/spin_hint are pure delays; 2-3 threads, K visible steps.")
T_NOTE = "Engine T trusted base: the axiom table for std / lock_api auto traits and the regex extraction (both validated against rustc on 56 table entries each run), z3, rustc."
CLAIMED = {
    "C01": ("Bounded symbolic check of exactly-once delivery on the real code: ghost ledgers (offered / received / dropped per tagged value) over blocked-op x peer-at-every-site, pending-future, split-phase, cancelled-while-claimed and call-sequence harnesses", KO, "K"),
    "C02": ("Bounded symbolic check of FIFO order: receive order vs acceptance order across buffer, waiting list (3 waiters, cancellation from head/middle, timed-out waiter among others), buffer refill and drain_into", KO, "K"),
    "C03": ("Bounded refinement check at critical-section granularity: every result of nested executions and of full-API call sequences equals the ideal atomic channel's; observers at hook sites see the registered state. Critical-section atomicity itself is C17's claim", KO, "K"),
    "C04": ("All bit patterns of 11 payload classes through the four KanalPtr paths and end-to-end on the three transfer paths (Kani); payload write happens-before payload read over all interleavings of the signal kernels (engine M)", KM, "K+M"),
    "C05": ("Bounded symbolic check of drop-exactly-once: ghost drop counters per tagged payload over every send variant x outcome (ok, closed, receive-closed, timeout with successful / failed cancel, refused, future dropped at every stage, terminated-then-dropped)", KO, "K"),
    "C06": ("Safety form of progress, bounded: no reachable state in which the counterpart has finished and the operation cannot be resumed (Kani: STUCK detector, latest-waker-woken ledger; engine M: no lost wake-up over all interleavings of wait/wake with spurious park returns)", KM, "K+M"),
    "C07": ("Engine M: no happens-before race between the peer's accesses to the waiter's signal / waker cell / payload slot and the owner's end-of-life, over all interleavings of the real MIR kernels; Kani: CBMC pointer-safety checks with split-phase peers against timed-out, dropped and re-polled waiters", KM, "K+M"),
    "C08": ("Bounded symbolic check of capacity: admission only with room or a waiting receiver, len <= capacity, refusal iff full and no receiver, rendezvous for capacity 0, zero-sized payloads included", KO, "K"),
    "C09": ("Bounded symbolic check of sync/async interchange: sync waiter x async peer and vice versa at every hook site, every conversion / clone flavour, with the delivery / order / drop / progress oracles of C01-C06", KO, "K"),
    "C10": ("Bounded symbolic check of close: close at every site of every blocked op and inside polls, call sequences after close (all operations fail Closed, counts zero, second close fails, buffered values destroyed), every clone flavour after close", KO, "K"),
    "C11": ("Bounded symbolic check of disconnect: last-handle drop at every site of blocked ops and against pending futures, buffered values then SendClosed, sends fail ReceiveClosed, clones taken after the other side is gone", KO, "K"),
    "C12": ("Bounded symbolic check of handle counts against a live-handle ledger over clone (4 flavours per side) / convert / drop / close sequences", KO, "K"),
    "C13": ("Bounded symbolic check of timed operations: exactly one outcome, Timeout never before the deadline (symbolic clock), nothing left in the waiting list, split-phase claim around the expiry, a timed-out waiter removes exactly itself; engine M: wait_timeout / wait kernel vs hand-off", KM, "K+M"),
    "C14": ("Bounded symbolic check of non-blocking operations: try_*/drain never reach the wait model, success iff a value moved, refused operations leave the state unchanged, realtime variants give up at once while the lock is held; engine M: try_lock is a single atomic step", KM, "K+M"),
    "C15": ("Bounded symbolic check of future drop at five life stages, including claimed-by-a-peer (hand-off or terminate at three sites, first and second arrival), the waiter behind keeping its place, terminated-then-dropped", KO, "K"),
    "C16": ("Bounded symbolic check of the polling contract: spurious polls with symbolic wakers stay pending, the latest waker is woken, a peer acting inside the poll, a claimed future re-polled, completed futures panic, the stream over several waits", KO, "K"),
    "C17": ("Bounded model checking of the real MIR of the spin mutex and spin_cond: mutual exclusion, happens-before race freedom on the protected data, no reachable panic, try_lock single step, progress for parallelism == 1 and > 1; 2-3 threads, all schedules within K steps", "MIR->SMT interleaving bounded model checking with a C11 happens-before monitor (z3, cvc5 cross-check)", "M"),
    "C18": ("Bounded symbolic equivalence with a reference queue-plus-waiting-list model: all one-call sequences and curated multi-call sequences over the full API alphabet (thorough: all legal two-call sequences), every result and every observer compared after every call", KO, "K"),
    "C19": ("Bounded symbolic check of drain_into on composed states: count, order (buffer then blocked senders oldest first), previous vector contents untouched, drained senders released and woken, closed channel, blocked receivers", KO, "K"),
    "C20": ("Auto-trait derivation of the seven public types as a propositional formula over (T: Send, T: Sync), decided universally by z3 and replayed on the compiler", "SMT encoding of auto-trait derivation (z3/cvc5) + rustc probe", "T"),
}
NA = {}
props = [json.loads(l) for l in open(os.path.join(HERE, "properties.jsonl"))]
checks, na = [], []
for p in props:
    pid = p["id"]
    if pid in CLAIMED:
        text, tech, eng = CLAIMED[pid]
        checks.append({
            "property_id": pid,
            "quick_cmd": "./check %s --tier quick" % pid,
            "thorough_cmd": "./check %s --tier thorough" % pid,
            "evidence_file": "evidence/%s.json" % pid,
            "replay_cmd_template": "./check %s --replay {path}" % pid,
            "engine": eng,
            "level_claimed": {"category": "other", "text": text + ". A pass means: the assertions hold for every value of the solver variables within the stated bounds; nothing is claimed outside them.",
                              "design_ref": "DESIGN.md section 4 (%s)" % pid},
            "level_note": {"K": K_NOTE, "K+M": K_NOTE + " " + M_NOTE, "M": M_NOTE, "T": T_NOTE}[eng],
            "technique": tech,
        })
    else:
        na.append({"property_id": pid, "reason": NA.get(pid, "check not built yet (work in progress in this session); no claim is made")})
m = {
    "version": 1,
    "setup_cmd": "python3 -m compileall -q lib check >/dev/null 2>&1; true",
    "hooks": {
        "guard": "cargo feature `verif` (cfg(feature = \"verif\"))",
        "enable": "checks copy /repo to a scratch directory, overlay kani/verif.rs + kani/verif/ as src/verif*, and run `cargo kani --features verif -Z stubbing`",
        "baseline_off_cmd": "cd /repo && cargo test --workspace --no-fail-fast --offline",
        "source_commits": ["3170146", "81bc633", "83fcac2", "5cfdd8a"],
        "add_only": True,
    },
    "engines": [
        {"name": "K", "path": "lib/kengine.py + lib/props.py + kani/", "serves_properties": sorted(k for k, v in CLAIMED.items() if "K" in v[2]),
         "kind_free_text": "Kani 0.68 / CBMC 6.11 bounded model checking of the compiled kanal crate; in-crate proof harnesses generated per run; concurrency sequentialised through hook sites"},
        {"name": "M", "path": "lib/mir.py + lib/mirbmc.py + lib/mscen.py", "serves_properties": sorted(k for k, v in CLAIMED.items() if "M" in v[2]),
         "kind_free_text": "MIR (nightly -Zunpretty=mir) of the lock-free kernels -> z3 bounded model checking with symbolic schedule and C11 happens-before monitor"},
        {"name": "T", "path": "lib/tengine.py", "serves_properties": ["C20"],
         "kind_free_text": "auto-trait derivation as SMT over extracted type structure; compiler probe as replay"},
    ],
    "checks": checks,
    "not_applicable": na,
    "notes": "See DESIGN.md. Exit codes: 0 pass, 1 replayed violation, 2 inconclusive.",
}
json.dump(m, open(os.path.join(HERE, "MANIFEST.json"), "w"), indent=1)
print("checks:", len(checks), "n/a:", len(na))
