#!/bin/bash
# runmut.sh <dir-id> : run the property's quick check against the mutated scratch tree
id=$1; prop=${id:0:3}; w=/tmp/wt/cf_$id
cd /verif && VERIF_REPO=$w VERIF_EVIDENCE_DIR=/tmp/wt/ev_$id VERIF_JOBS=${JOBS:-8} ./check $prop > /tmp/wt/run_$id.log 2>&1
echo "exit $?" >> /tmp/wt/run_$id.log
