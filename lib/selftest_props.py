#!/usr/bin/env python3
"""Developer self-test for lib/props.py (run after every edit of the generators):
  * every must-have pattern of every property matches at least one instance of the full product and one of the quick list;
  * harness names are unique; list sizes are within the tier limits.
Exit 1 on a problem."""
import os, re, sys
sys.path.insert(0, os.path.dirname(os.path.abspath(__file__)))
import props

bad = 0
for p in props.K_PROPS:
    full = [i.name for i in props._raw(p, True, with_so=False)]
    quick = [i.name for i in props.instances(p, "quick")]
    thorough = [i.name for i in props.instances(p, "thorough")]
    for pat in props.MUST.get(p, []):
        nf = sum(1 for n in full if re.search(pat, n))
        nq = sum(1 for n in quick if re.search(pat, n))
        if nf == 0 or nq == 0:
            print("%s: pattern %r matches %d of the full product, %d of the quick list" % (p, pat, nf, nq))
            bad += 1
    for name, L in (("quick", quick), ("thorough", thorough)):
        if len(set(L)) != len(L):
            print("%s: duplicate harness names in the %s list" % (p, name))
            bad += 1
    if len(quick) > props.QUICK_N + 1:
        print("%s: quick list has %d entries" % (p, len(quick)))
        bad += 1
    print("%s quick %d thorough %d must-have patterns %d" % (p, len(quick), len(thorough), len(props.MUST.get(p, []))))
sys.exit(1 if bad else 0)
