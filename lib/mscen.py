"""Engine M scenarios and queries (see mirbmc.py)."""
import time, subprocess
import z3
import mir
from mirbmc import Engine, Scenario, Run, Unsupported, bv

MUTEX = ("obj", "mutex", {"0": ("shared", "mutex.locked")})
LOCKED, UNLOCKED, TERMINATED, STARV = 2, 0, 1, 3


def solve(run, extra, timeout_s=600):
    s = z3.SolverFor("QF_BV")
    s.set("timeout", int(timeout_s * 1000))
    s.add(run.constraints)
    s.add(extra)
    t0 = time.time()
    r = s.check()
    return r, (s.model() if r == z3.sat else None), time.time() - t0, s


def trace_of(run, model):
    out = []
    for (i, t, c, text) in run.events:
        if z3.is_true(model.eval(c, model_completion=True)):
            out.append("step %d  T%d  %s" % (i, t, text))
    return out


def cross_check(s, expect, budget_s=20):
    """same query through cvc5 on the SMT-LIB text (QF_BV); returns 'agree' / 'skipped' / a disagreement text"""
    smt = "(set-logic QF_BV)\n" + s.to_smt2()
    try:
        p = subprocess.run(["cvc5", "--lang", "smt2", "--tlimit", str(budget_s * 1000)], input=smt, stdout=subprocess.PIPE,
                           stderr=subprocess.STDOUT, text=True, timeout=budget_s + 30)
    except subprocess.TimeoutExpired:
        return "skipped (cvc5 timeout)"
    first = p.stdout.strip().splitlines()[0] if p.stdout.strip() else "?"
    if "(error" in p.stdout:
        return "cvc5 error: " + p.stdout[:200]
    if first in ("sat", "unsat"):
        return "agree" if first == expect else "DISAGREE: z3=%s cvc5=%s" % (expect, first)
    return "skipped (cvc5: %s)" % first[:40]


class Result:
    def __init__(self):
        self.queries = []  # dicts
        self.violations = []  # dicts with trace
        self.inconclusive = []
        self.encoded = set()
        self.build_s = 0.0


def mutex_threads(rounds):
    one = [("call", "mutex.rs::lock", [MUTEX]), ("ghost", "enter", "cs"), ("ghost", "write", "data"), ("ghost", "leave", "cs"),
           ("call", "mutex.rs::unlock", [MUTEX])]
    return [one * r for r in rounds]


def run_queries(res, run, sc, queries, xcheck=True):
    """queries: [(name, formula, expect)]; expect 'unsat' for safety queries, 'sat' for witnesses"""
    for (name, formula, expect) in queries:
        r, model, dt, s = solve(run, formula)
        q = {"scenario": sc.name, "query": name, "expect": expect, "z3": str(r), "solver_s": round(dt, 2), "K": sc.K, "threads": len(sc.threads)}
        if r == z3.unknown:
            res.inconclusive.append("%s / %s: solver gave up" % (sc.name, name))
        elif str(r) != expect:
            tr = trace_of(run, model) if model is not None else []
            res.violations.append({"scenario": sc.name, "query": name, "expected": expect, "got": str(r), "trace": tr,
                                   "parallelism": str(model.eval(run.par, model_completion=True)) if model is not None else None})
            q["trace"] = tr[:60]
        if xcheck and dt < 5:
            q["cvc5"] = cross_check(s, str(r))
            if q["cvc5"].startswith("DISAGREE") or q["cvc5"].startswith("cvc5 error"):
                res.inconclusive.append("%s / %s: %s" % (sc.name, name, q["cvc5"]))
        res.queries.append(q)


def standard_queries(run, sc, kinds=("panic", "mutual_exclusion", "data_race")):
    qs = []
    for k in kinds:
        conds = run.bad.get(k, [])
        qs.append(("no %s within K=%d" % (k.replace("_", " "), sc.K), z3.Or(conds) if conds else z3.BoolVal(False), "unsat"))
    qs.append(("witness: all threads can finish within K (vacuity guard)", run.all_finished(), "sat"))
    return qs


def c17(eng, tier, res):
    shared = {"mutex.locked": z3.BoolVal(False), "cs": bv(0, 4)}
    plans = [("mutex 2 threads, 1 section each", [1, 1], 14), ("mutex 2 threads, sections 2+1 (second unlock while a waiter spins)", [2, 1], 17)]
    if tier == "thorough":
        plans += [("mutex 3 threads, 1 section each", [1, 1, 1], 22), ("mutex 2 threads, sections 2+2", [2, 2], 24),
                  ("mutex 3 threads, sections 2+1+1", [2, 1, 1], 24), ("mutex 2 threads, sections 3+1", [3, 1], 24)]
    for (name, rounds, K) in plans:
        sc = Scenario(name, mutex_threads(rounds), shared, nonatomic=["data"], K=K)
        t0 = time.time()
        run = Run(eng, sc).build()
        res.build_s += time.time() - t0
        qs = standard_queries(run, sc)
        # both reported parallelism classes can finish
        qs.append(("witness: finishes with parallelism == 1", z3.And(run.all_finished(), run.par == 1), "sat"))
        qs.append(("witness: finishes with parallelism > 1", z3.And(run.all_finished(), z3.UGT(run.par, 1)), "sat"))
        run_queries(res, run, sc, qs)
    # try_lock never waits: one visible step, whatever the lock state is
    locked0 = z3.Bool("initially_locked")
    sc = Scenario("try_lock alone, arbitrary lock state", [[("call", "mutex.rs::try_lock", [MUTEX], "r")]], {"mutex.locked": locked0, "cs": bv(0, 4)}, nonatomic=["data"], K=2)
    run = Run(eng, sc).build()
    run_queries(res, run, sc, [("try_lock returns after exactly one atomic step (not finished after its first step)", z3.Not(run.snaps[0]["finished"][0]), "unsat"),
                               ("witness: try_lock finishes", run.all_finished(), "sat")])
    # progress: the holder leaves, the spinning acquirer runs alone -> it acquires within N steps
    for (pname, pc) in (("parallelism == 1", lambda r: r.par == 1), ("parallelism > 1", lambda r: z3.UGT(r.par, 1))):
        J, N = (6, 8) if tier == "quick" else (12, 10)
        K = J + N
        holder = [("ghost", "write", "data"), ("call", "mutex.rs::unlock", [MUTEX])]
        acq = [("call", "mutex.rs::lock", [MUTEX]), ("ghost", "write", "data")]
        sc = Scenario("progress, %s: holder unlocks after the acquirer has spun <= %d steps" % (pname, J), [holder, acq],
                      {"mutex.locked": z3.BoolVal(True), "cs": bv(0, 4)}, nonatomic=["data"], K=K)
        run = Run(eng, sc).build()
        stuck = z3.And(pc(run), run.snaps[J - 1]["finished"][0], z3.Not(run.snaps[K - 1]["finished"][1]))
        run_queries(res, run, sc, [("acquirer still not inside %d steps after the holder left" % N, stuck, "unsat"),
                                   ("witness: holder leaves by step %d and acquirer gets in" % J, z3.And(pc(run), run.snaps[J - 1]["finished"][0], run.all_finished()), "sat"),
                                   ("no data race / panic", z3.Or(run.bad.get("data_race", []) + run.bad.get("panic", []) + [z3.BoolVal(False)]), "unsat")])


def sig_obj(variant):
    variants = {"Sync": {"0": ("cell", "sig.waker")}, "Async": {"0": ("waker", "sig.awaker")}}
    disc = {"Sync": 1, "Async": 2}[variant]
    return ("obj", "sig", {"0": ("shared", "sig.state"), "1": ("slotref", "slot"), "2": ("static_disc", disc, variants)})


def signal_scenarios(eng, tier, res, which=("recv_waiter", "send_waiter", "terminated", "timed", "async_drop")):
    base_shared = {"sig.state": bv(LOCKED, 8), "sig.waker": bv(255, 8), "sig.awaker": bv(7, 8), "pub": z3.BoolVal(False), "woken": z3.BoolVal(False)}
    na = ["slot", "sig.waker", "sig.awaker", "sigframe"]
    K = 16 if tier == "quick" else 26
    S = []
    sync = sig_obj("Sync")
    asy = sig_obj("Async")
    if "recv_waiter" in which:
        S.append(("blocked sync receiver, sender hands off (Signal::wait vs Signal::send)",
                  [[("ghost", "rel", "pub"), ("call", "signal.rs::wait", [sync], "ok"), ("ghost", "read", "slot"), ("ghost", "eol", "sigframe")],
                   [("ghost", "acq", "pub"), ("call", "signal.rs::send|\\*const", [sync, None])]], True))
    if "send_waiter" in which:
        S.append(("blocked sync sender, receiver takes the value (Signal::wait vs Signal::recv)",
                  [[("ghost", "write", "slot"), ("ghost", "rel", "pub"), ("call", "signal.rs::wait", [sync], "ok"), ("ghost", "eol", "slot"), ("ghost", "eol", "sigframe")],
                   [("ghost", "acq", "pub"), ("call", "signal.rs::recv|\\*const", [sync])]], True))
    if "terminated" in which:
        S.append(("blocked sync waiter terminated by close / last drop (Signal::wait vs Signal::terminate)",
                  [[("ghost", "write", "slot"), ("ghost", "rel", "pub"), ("call", "signal.rs::wait", [sync], "ok"), ("ghost", "eol", "slot"), ("ghost", "eol", "sigframe")],
                   [("ghost", "acq", "pub"), ("call", "signal.rs::terminate|\\*const", [sync])]], True))
    if "timed" in which:
        S.append(("timed waiter whose cancel failed: wait_timeout, then wait, vs Signal::send",
                  [[("ghost", "rel", "pub"), ("call", "signal.rs::wait_timeout", [sync, None], "ok1"), ("call", "signal.rs::wait", [sync], "ok"),
                    ("ghost", "read", "slot"), ("ghost", "eol", "sigframe")],
                   [("ghost", "acq", "pub"), ("call", "signal.rs::send|\\*const", [sync, None])]], True))
    if "async_drop" in which:
        S.append(("future dropped / re-polled while claimed: async_blocking_wait vs Signal::send (task waker)",
                  [[("ghost", "write", "sig.awaker"), ("ghost", "rel", "pub"), ("call", "signal.rs::async_blocking_wait", [asy], "ok"),
                    ("ghost", "read", "slot"), ("ghost", "eol", "sigframe")],
                   [("ghost", "acq", "pub"), ("call", "signal.rs::send|\\*const", [asy, None])]], False))
    for (name, threads, sync_waiter) in S:
        sc = Scenario(name, threads, base_shared, nonatomic=na, K=K)
        sc.owner = 0
        t0 = time.time()
        run = Run(eng, sc).build()
        res.build_s += time.time() - t0
        qs = standard_queries(run, sc, kinds=("panic", "data_race"))
        if sync_waiter:
            lost = [z3.And(sn["finished"][1], sn["parked"][0], z3.Not(sn["token"][0])) for sn in run.snaps]
            qs.append(("no lost wake-up: peer finished while the waiter is parked without a token", z3.Or(lost), "unsat"))
            qs.append(("witness: the waiter leaves its spin phase and parks (park path reachable within K)",
                       z3.Or([sn["parked"][0] for sn in run.snaps]), "sat"))
        else:
            qs.append(("task waker invoked when the peer has finished", z3.And(run.snaps[-1]["finished"][1], z3.Not(run.snaps[-1]["shared"]["woken"])), "unsat"))
        run_queries(res, run, sc, qs)


def run_all(prop, tier, repo=None):
    res = Result()
    t0 = time.time()
    try:
        text = mir.dump_mir(repo or mir.REPO)
        fns, consts = mir.parse(text)
        eng = Engine(fns, consts)
        if prop == "C17":
            c17(eng, tier, res)
        elif prop in ("C06", "C07", "C04", "C13"):
            which = {"C06": ("recv_waiter", "send_waiter", "terminated", "timed", "async_drop"),
                     "C07": ("recv_waiter", "send_waiter", "terminated", "timed", "async_drop"),
                     "C04": ("recv_waiter", "send_waiter"), "C13": ("timed",)}[prop]
            signal_scenarios(eng, tier, res, which)
        elif prop == "C14":
            locked0 = z3.Bool("initially_locked")
            sc = Scenario("try_lock alone, arbitrary lock state", [[("call", "mutex.rs::try_lock", [MUTEX], "r")]],
                          {"mutex.locked": locked0, "cs": bv(0, 4)}, nonatomic=["data"], K=2)
            run = Run(eng, sc).build()
            run_queries(res, run, sc, [("try_lock returns after exactly one atomic step", z3.Not(run.snaps[0]["finished"][0]), "unsat"),
                                       ("witness: try_lock finishes", run.all_finished(), "sat")])
        res.encoded = set(eng.encoded)
    except Unsupported as e:
        res.inconclusive.append("unsupported MIR: %s" % e)
    except (KeyError, RuntimeError) as e:
        res.inconclusive.append("MIR extraction failed: %s" % str(e)[:500])
    res.wall = time.time() - t0
    return res
