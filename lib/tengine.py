"""Engine T: auto-trait (Send/Sync) derivation of kanal's public types as a z3 formula.

Inputs (regenerated on every run): struct / enum definitions, type aliases and
`unsafe impl ... Send|Sync for ...` headers extracted from /repo/src/*.rs.
`T: Send` and `T: Sync` are two free booleans; derivation rules for std /
lock_api types are an axiom table (trusted).  Queries are discharged by z3
(cross-checked with cvc5); the compiler's verdict on a generated probe program
(4 representative message types x 7 types x {Send, Sync}) validates the
encoding and replays counterexamples.
"""
import json, os, re, shutil, subprocess, sys, tempfile, time

REPO = os.environ.get("VERIF_REPO", "/repo")
FILES = ["lib.rs", "future.rs", "internal.rs", "signal.rs", "pointer.rs", "mutex.rs"]
PUBLIC = ["Sender", "AsyncSender", "Receiver", "AsyncReceiver", "SendFuture", "ReceiveFuture", "ReceiveStream"]
HANDLES = PUBLIC[:4]

# ---------------------------------------------------------------- extraction


def strip_comments(s):
    s = re.sub(r"//[^\n]*", "", s)
    s = re.sub(r"/\*.*?\*/", "", s, flags=re.S)
    return s


def matching(s, i, open_c, close_c):
    d = 0
    for j in range(i, len(s)):
        if s[j] == open_c:
            d += 1
        elif s[j] == close_c:
            d -= 1
            if d == 0:
                return j
    raise ValueError("unbalanced")


def split_top(s, sep=","):
    out, d, cur = [], 0, ""
    for ch in s:
        if ch in "<([{":
            d += 1
        elif ch in ">)]}":
            d -= 1
        if ch == sep and d == 0:
            out.append(cur)
            cur = ""
        else:
            cur += ch
    if cur.strip():
        out.append(cur)
    return [x.strip() for x in out if x.strip()]


def extract(repo=REPO):
    types, aliases, impls = {}, {}, []
    for f in FILES:
        p = os.path.join(repo, "src", f)
        if not os.path.exists(p):
            continue
        src = strip_comments(open(p).read())
        # drop attributes
        src_na = re.sub(r"#!?\[[^\]]*\]", "", src)
        for m in re.finditer(r"\b(?:pub(?:\([^)]*\))?\s+)?struct\s+(\w+)\s*(<[^{;(]*>)?\s*(where[^{;(]*)?([({;])", src_na):
            name, gens, _, opener = m.group(1), m.group(2) or "", m.group(3), m.group(4)
            fields = []
            if opener == "{":
                end = matching(src_na, m.end() - 1, "{", "}")
                body = src_na[m.end():end]
                for fld in split_top(body):
                    fm = re.match(r"(?:pub(?:\([^)]*\))?\s+)?(\w+)\s*:\s*(.*)$", fld, re.S)
                    if fm:
                        fields.append(" ".join(fm.group(2).split()))
            elif opener == "(":
                end = matching(src_na, m.end() - 1, "(", ")")
                body = src_na[m.end():end]
                for fld in split_top(body):
                    fields.append(" ".join(re.sub(r"^pub(?:\([^)]*\))?\s+", "", fld).split()))
            types[name] = {"kind": "struct", "generics": gens, "fields": fields, "file": f}
        for m in re.finditer(r"\b(?:pub(?:\([^)]*\))?\s+)?enum\s+(\w+)\s*(<[^{]*>)?\s*\{", src_na):
            name, gens = m.group(1), m.group(2) or ""
            end = matching(src_na, m.end() - 1, "{", "}")
            body = src_na[m.end():end]
            fields = []
            for var in split_top(body):
                vm = re.match(r"\w+\s*\((.*)\)\s*$", var, re.S)
                if vm:
                    fields += [" ".join(x.split()) for x in split_top(vm.group(1))]
                vm = re.match(r"\w+\s*\{(.*)\}\s*$", var, re.S)
                if vm:
                    for fld in split_top(vm.group(1)):
                        fields.append(" ".join(fld.split(":", 1)[1].split()))
            types[name] = {"kind": "enum", "generics": gens, "fields": fields, "file": f}
        for m in re.finditer(r"\b(?:pub(?:\([^)]*\))?\s+)?type\s+(\w+)\s*(<[^=]*>)?\s*=\s*([^;]+);", src_na):
            # skip associated types inside impls (they have no pub / are `type X = ..` inside braces): keep top-level-ish ones
            aliases[m.group(1)] = {"generics": m.group(2) or "", "target": " ".join(m.group(3).split()), "file": f}
        for m in re.finditer(r"unsafe\s+impl\s*(<[^>]*>)?\s*(Send|Sync)\s+for\s+([^{]+?)\s*(where[^{]*)?\{", src):
            impls.append({"generics": m.group(1) or "", "trait": m.group(2), "for": " ".join(m.group(3).split()),
                          "where": " ".join((m.group(4) or "").split()), "file": f})
    return types, aliases, impls


# ---------------------------------------------------------------- type expressions

PRIM = {"bool", "u8", "u16", "u32", "u64", "usize", "i8", "i16", "i32", "i64", "isize", "AtomicU8", "AtomicBool", "AtomicUsize",
        "AtomicU32", "Waker", "Thread", "PhantomPinned", "Instant", "Duration", "()"}
STRUCTURAL = {"MaybeUninit", "Option", "VecDeque", "Vec", "Box", "Pin", "ManuallyDrop"}


class Deriver:
    """builds z3 terms Send(e) / Sync(e) for type expressions; generic parameter T maps to the free booleans"""

    def __init__(self, types, aliases, impls, z3):
        self.types, self.aliases, self.impls, self.z3 = types, aliases, impls, z3
        self.send_T, self.sync_T = z3.Bool("send_T"), z3.Bool("sync_T")
        self.memo = {}
        self.trace = []
        self.unknown = []

    def norm(self, e):
        e = e.strip()
        e = re.sub(r"'\w+\s*,\s*", "", e)  # lifetimes in generic lists
        e = re.sub(r"<\s*'\w+\s*>", "", e)
        return " ".join(e.split())

    def head_args(self, e):
        m = re.match(r"([\w:]+)\s*<(.*)>$", e, re.S)
        if m:
            return m.group(1).split("::")[-1], split_top(m.group(2))
        return e.split("::")[-1], []

    def derive(self, e, depth=0):
        z3 = self.z3
        e = self.norm(e)
        if e in self.memo:
            return self.memo[e]
        if depth > 40:
            raise RuntimeError("type recursion too deep: " + e)
        r = self._derive(e, depth)
        self.memo[e] = r
        return r

    def _derive(self, e, depth):
        z3 = self.z3
        T, F = z3.BoolVal(True), z3.BoolVal(False)
        if e == "T":
            return (self.send_T, self.sync_T)
        if e in PRIM:
            return (T, T)
        m = re.match(r"&\s*(?:'\w+\s+)?mut\s+(.*)$", e)
        if m:
            return self.derive(m.group(1), depth + 1)
        m = re.match(r"&\s*(?:'\w+\s*)?(.*)$", e)
        if m:
            s = self.derive(m.group(1), depth + 1)[1]
            return (s, s)
        if re.match(r"\*\s*(const|mut)\s", e):
            return (F, F)
        m = re.match(r"dyn\s+(.*)$", e)
        if m:
            bounds = [b.strip() for b in split_top(m.group(1), "+")]
            return (T if "Send" in bounds else F, T if "Sync" in bounds else F)
        if e.startswith("(") and e.endswith(")"):
            parts = [self.derive(x, depth + 1) for x in split_top(e[1:-1])]
            return (z3.And([p[0] for p in parts] + [T]), z3.And([p[1] for p in parts] + [T]))
        m = re.match(r"\[(.*);[^;\]]*\]$", e)
        if m:
            return self.derive(m.group(1), depth + 1)
        head, args = self.head_args(e)
        if head == "UnsafeCell":
            return (self.derive(args[0], depth + 1)[0], F)
        if head in STRUCTURAL:
            return self.derive(args[0], depth + 1)
        if head == "Arc":
            s = self.derive(args[0], depth + 1)
            b = z3.And(s[0], s[1])
            return (b, b)
        if head == "PhantomData":
            return self.derive(args[0], depth + 1)
        if head == "Mutex" and len(args) == 2:  # lock_api::Mutex<R, X>
            r_, x_ = self.derive(args[0], depth + 1), self.derive(args[1], depth + 1)
            return (z3.And(r_[0], x_[0]), z3.And(r_[1], x_[0]))
        if head in self.aliases and head not in self.types:
            a = self.aliases[head]
            tgt = a["target"]
            params = [p.strip() for p in split_top(a["generics"].strip("<>"))] if a["generics"] else []
            params = [p for p in params if not p.startswith("'")]
            real_args = [x for x in args if not x.strip().startswith("'")]
            for pn, av in zip(params, real_args):
                pn = pn.split(":")[0].strip()
                tgt = re.sub(r"\b%s\b" % re.escape(pn), "\x00" + av + "\x00", tgt)
            tgt = tgt.replace("\x00", "")
            return self.derive(tgt, depth + 1)
        if head == "Mutex" and len(args) == 1:
            # crate alias Mutex<T> = lock_api::Mutex<RawMutexLock, T> is handled above (alias); std::sync::Mutex otherwise
            x_ = self.derive(args[0], depth + 1)
            return (x_[0], x_[0])
        if head in self.types:
            t = self.types[head]
            out = []
            for trait_i, trait in enumerate(("Send", "Sync")):
                explicit = [i for i in self.impls if i["trait"] == trait and self.head_args(self.norm(i["for"]))[0] == head]
                if explicit:
                    conds = []
                    for i in explicit:
                        c = []
                        bounds = i["generics"].strip("<>") + " , " + i["where"].replace("where", "")
                        for b in split_top(bounds):
                            bm = re.match(r"(\w+)\s*:\s*(.*)$", b)
                            if bm and bm.group(1) == "T":
                                for tb in [x.strip() for x in bm.group(2).split("+")]:
                                    if tb == "Send":
                                        c.append(self.send_T)
                                    elif tb == "Sync":
                                        c.append(self.sync_T)
                        conds.append(z3.And(c + [T]))
                    out.append(z3.Or(conds))
                    self.trace.append("%s: %s by explicit unsafe impl (%s)" % (head, trait, "; ".join(i["generics"] + " " + i["where"] for i in explicit)))
                else:
                    fs = [self.derive(f, depth + 1)[trait_i] for f in t["fields"]]
                    out.append(z3.And(fs + [T]))
            return tuple(out)
        self.unknown.append(e)
        raise RuntimeError("INCONCLUSIVE: type outside the axiom table: " + e)


# ---------------------------------------------------------------- rustc probe

PROBE_TYPES = [("u8", True, True), ("std::rc::Rc<()>", False, False), ("std::cell::Cell<u8>", True, False),
               ("std::sync::MutexGuard<'static, u8>", False, True)]


def rustc_table(repo=REPO):
    """compile and run a probe that prints, for each probe message type, whether each public type is Send / Sync"""
    base = tempfile.mkdtemp(prefix="kanal-verif-t-", dir=os.environ.get("VERIF_TMP", "/tmp"))
    try:
        k = os.path.join(base, "kanal")
        os.makedirs(k)
        shutil.copytree(os.path.join(repo, "src"), os.path.join(k, "src"))
        for f in ("Cargo.lock", "README.md"):
            shutil.copy(os.path.join(repo, f), k)
        toml = open(os.path.join(repo, "Cargo.toml")).read()
        out, skip = [], False
        for line in toml.splitlines():
            if line.startswith("["):
                skip = line.startswith("[dev-dependencies]") or line.startswith("[[bench]]")
            if not skip:
                out.append(line)
        open(os.path.join(k, "Cargo.toml"), "w").write("\n".join(out) + "\n[workspace]\n")
        pr = os.path.join(base, "probe")
        os.makedirs(os.path.join(pr, "src"))
        open(os.path.join(pr, "Cargo.toml"), "w").write(
            '[package]\nname = "probe"\nversion = "0.0.0"\nedition = "2021"\n[dependencies]\nkanal = { path = "../kanal" }\n[workspace]\n')
        shutil.copy(os.path.join(repo, "Cargo.lock"), pr)
        lines = ["use std::marker::PhantomData;",
                 "trait NotS { const S: bool = false; } impl<X: ?Sized> NotS for X {}",
                 "trait NotY { const Y: bool = false; } impl<X: ?Sized> NotY for X {}",
                 "struct WS<X: ?Sized>(PhantomData<X>); impl<X: ?Sized + Send> WS<X> { const S: bool = true; }",
                 "struct WY<X: ?Sized>(PhantomData<X>); impl<X: ?Sized + Sync> WY<X> { const Y: bool = true; }",
                 "fn main() {"]
        for (mt, _, _) in PROBE_TYPES:
            for ty in PUBLIC:
                full = "kanal::%s<%s>" % (ty, mt) if ty in HANDLES else "kanal::%s<'static, %s>" % (ty, mt)
                lines.append('    println!("%s|%s|{}|{}", <WS<%s>>::S, <WY<%s>>::Y);' % (mt, ty, full, full))
        lines.append("}")
        open(os.path.join(pr, "src", "main.rs"), "w").write("\n".join(lines) + "\n")
        env = dict(os.environ)
        env["CARGO_NET_OFFLINE"] = "true"
        p = subprocess.run(["cargo", "run", "--offline", "-q"], cwd=pr, env=env, stdout=subprocess.PIPE, stderr=subprocess.PIPE,
                           text=True, timeout=600)
        if p.returncode != 0:
            return None, p.stderr[-3000:]
        table = {}
        for line in p.stdout.splitlines():
            mt, ty, s, y = line.split("|")
            table[(mt, ty)] = (s == "true", y == "true")
        return table, ""
    finally:
        shutil.rmtree(base, ignore_errors=True)


# ---------------------------------------------------------------- driver


def smt2_of(z3, solver):
    return solver.to_smt2()


def run(prop="C20", tier="quick"):
    import z3
    t0 = time.time()
    types, aliases, impls = extract()
    missing = [p for p in PUBLIC if p not in types]
    result = {"violations": [], "inconclusive": [], "queries": [], "trace": []}
    if missing:
        result["inconclusive"].append("public types not found in the sources: %s" % missing)
        return result, types, impls, time.time() - t0
    d = Deriver(types, aliases, impls, z3)
    der = {}
    try:
        for ty in PUBLIC:
            gens = types[ty]["generics"]
            expr = "%s<T>" % ty
            der[ty] = d.derive(expr)
    except RuntimeError as e:
        result["inconclusive"].append(str(e))
        return result, types, impls, time.time() - t0
    result["trace"] = d.trace

    def query(name, formula, want_unsat=True):
        s = z3.Solver()
        s.add(formula)
        t1 = time.time()
        r = s.check()
        dt = time.time() - t1
        # cross-check with cvc5 on the SMT-LIB text
        smt = "(set-logic ALL)\n" + s.to_smt2()
        cv = subprocess.run(["cvc5", "--lang", "smt2"], input=smt, stdout=subprocess.PIPE, stderr=subprocess.STDOUT, text=True)
        cvr = cv.stdout.strip().splitlines()[0] if cv.stdout.strip() else "?"
        model = None
        if r == z3.sat:
            m = s.model()
            model = {"send_T": z3.is_true(m.eval(d.send_T, model_completion=True)), "sync_T": z3.is_true(m.eval(d.sync_T, model_completion=True))}
        q = {"query": name, "z3": str(r), "cvc5": cvr, "solver_s": round(dt, 4), "model": model}
        result["queries"].append(q)
        if "(error" in cv.stdout or str(r) != cvr:
            result["inconclusive"].append("solver disagreement / error on %s: z3=%s cvc5=%s" % (name, r, cv.stdout[:200]))
        return r, model

    cex = []
    for ty in PUBLIC:
        snd, syn = der[ty]
        if ty in HANDLES:
            r, m = query("T: Send => %s<T>: Send + Sync" % ty, z3.And(d.send_T, z3.Not(z3.And(snd, syn))))
            if r == z3.sat:
                cex.append(("positive", ty, m))
        else:
            r, m = query("T: Send => %s<T>: Send" % ty, z3.And(d.send_T, z3.Not(snd)))
            if r == z3.sat:
                cex.append(("positive", ty, m))
        r, m = query("T: !Send => %s<T>: !Send and !Sync" % ty, z3.And(z3.Not(d.send_T), z3.Or(snd, syn)))
        if r == z3.sat:
            cex.append(("negative", ty, m))
    # vacuity witnesses: the derived predicates are satisfiable both ways
    for ty in PUBLIC:
        r, _ = query("witness: %s<T>: Send is possible" % ty, der[ty][0])
        if r != z3.sat:
            cex.append(("positive", ty, {"send_T": True, "sync_T": True}))
    # ---- compiler table: validates the encoding on 4 concrete message types and replays counterexamples
    table, err = rustc_table()
    if table is None:
        result["inconclusive"].append("probe program does not compile: " + err[-800:])
        return result, types, impls, time.time() - t0
    mism = []
    for (mt, sT, yT) in PROBE_TYPES:
        for ty in PUBLIC:
            s = z3.Solver()
            s.add(d.send_T == sT, d.sync_T == yT)
            s.check()
            m = s.model()
            pred = (z3.is_true(m.eval(der[ty][0], model_completion=True)), z3.is_true(m.eval(der[ty][1], model_completion=True)))
            if pred != table[(mt, ty)]:
                mism.append({"message_type": mt, "type": ty, "encoder": pred, "rustc": table[(mt, ty)]})
    result["table_entries"] = len(table) * 2
    result["table_mismatches"] = mism
    if mism:
        result["inconclusive"].append("encoder and compiler disagree on %d table entries (axiom table / extraction wrong): %s" % (len(mism), mism[:3]))
    # replay counterexamples on the compiler's table
    for (direction, ty, m) in cex:
        reps = []
        for (mt, sT, yT) in PROBE_TYPES:
            if m is not None and (sT, yT) != (m["send_T"], m["sync_T"]) and direction == "negative":
                continue
            s_, y_ = table[(mt, ty)]
            if direction == "positive" and sT and (not s_ or (ty in HANDLES and not y_)):
                reps.append((mt, s_, y_))
            if direction == "negative" and not sT and (s_ or y_):
                reps.append((mt, s_, y_))
        result["violations"].append({"direction": direction, "type": ty, "solver_model": m, "compiler_confirms": reps})
    return result, types, impls, time.time() - t0
