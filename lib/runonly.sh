#!/bin/bash
# runonly.sh <tag> <prop> <repo> <regex>
cd /verif && VERIF_ONLY="$4" VERIF_REPO=$3 VERIF_EVIDENCE_DIR=/tmp/wt/ev_$1 VERIF_JOBS=4 ./check $2 > /tmp/wt/run_$1.log 2>&1; echo "exit $?" >> /tmp/wt/run_$1.log
